(** C03 — each function is run at most once, and exactly once in a clean run. *)
From FG Require Import Dag Builder Sched DagFacts EdgeFacts RankFacts BuilderFacts TopoFacts AugFacts BuildFacts
     SchedInv SchedInv2 SafetyFacts CfgFacts StreamInv SI_Queuer SI_Step SI2_Step SI_Stream SafetyInv StreamFacts OutcomeFacts SelfSignal SelfSignalInv.
From Coq Require Import Permutation.

Theorem C03_at_most_once_call : forall ops G p q rev a mt ctl lim st incl imm er evs,
  build (builder_run ops) = BOk G p q ->
  NoDup (starts (trace (run (mk_cfg G rev a mt ctl lim st incl imm er) evs))).
Proof.
  intros ops G p q rev a mt ctl lim st incl imm er evs Hb.
  pose proof (build_ok_intro ops G p q Hb) as Hok.
  pose proof (inv_run _ evs (cfg_ok_mk _ _ _ _ rev a mt ctl lim st incl imm er Hok)) as Hinv.
  eapply trace_starts_nodup. apply (v_trace _ _ Hinv).
Qed.
Print Assumptions C03_at_most_once_call.

(** ... also when a user future sends the interrupt signal itself, inside a poll of the call
    ([SelfSignal.run_sig]; known finding F4 concerns the C08 bound only): still at most once, and
    still no panic site or fuel exhaustion reachable. *)
Theorem C03_when_a_user_future_sends_the_signal : forall ops G p q rev a mt ctl lim st incl imm er sg evs,
  build (builder_run ops) = BOk G p q ->
  NoDup (starts (trace (fst (run_sig sg (mk_cfg G rev a mt ctl lim st incl imm er) evs)))) /\
  panic (fst (run_sig sg (mk_cfg G rev a mt ctl lim st incl imm er) evs)) = None.
Proof.
  intros ops G p q rev a mt ctl lim st incl imm er sg evs Hb.
  pose proof (build_ok_intro ops G p q Hb) as Hok.
  pose proof (inv_run_sig sg _ evs (cfg_ok_mk _ _ _ _ rev a mt ctl lim st incl imm er Hok)) as Hinv.
  split; [eapply trace_starts_nodup; apply (v_trace _ _ Hinv) | apply (v_nopanic _ _ Hinv)].
Qed.
Print Assumptions C03_when_a_user_future_sends_the_signal.

Theorem C03_at_most_once_stream : forall ops G p q rev st intr drain evs,
  build (builder_run ops) = BOk G p q ->
  NoDup (starts (trace (srun (mk_scfg G rev st intr drain) evs))).
Proof.
  intros ops G p q rev st intr drain evs Hb.
  pose proof (build_ok_intro ops G p q Hb) as Hok.
  pose proof (sinv_run _ evs (scfg_ok_mk _ _ _ _ rev st intr drain Hok)) as Hinv.
  eapply trace_starts_nodup. apply (sv_trace _ _ Hinv).
Qed.
Print Assumptions C03_at_most_once_stream.

(** The ready channel never refuses an id and the done channel never makes a sender wait, whatever
    the number of functions: no panic site (preload expect, count underflow, fns_remaining
    underflow, result channel, try_write, a blocked send) and no fuel exhaustion is reachable. *)
Theorem C03_channels_never_full : forall ops G p q rev a mt ctl lim st incl imm er evs,
  build (builder_run ops) = BOk G p q ->
  panic (run (mk_cfg G rev a mt ctl lim st incl imm er) evs) = None.
Proof.
  intros ops G p q rev a mt ctl lim st incl imm er evs Hb.
  pose proof (build_ok_intro ops G p q Hb) as Hok.
  apply (v_nopanic _ _ (inv_run _ evs (cfg_ok_mk _ _ _ _ rev a mt ctl lim st incl imm er Hok))).
Qed.
Print Assumptions C03_channels_never_full.

(** A stream that has yielded [None] has yielded every function exactly once. *)
Theorem C03_stream_none_all : forall ops G p q rev st drain evs s' r,
  build (builder_run ops) = BOk G p q ->
  let sc := mk_scfg G rev st false drain in
  s_alive (srun sc evs) = true ->
  sstep sc (srun sc evs) SNext = (s', r) ->
  (r = WNone <-> length (starts (trace (srun sc evs))) = ncount (builder_run ops)).
Proof.
  intros ops G p q rev st drain evs s' r Hb sc Halive Hstep.
  pose proof (build_ok_intro ops G p q Hb) as Hok.
  pose proof (scfg_ok_mk _ _ _ _ rev st false drain Hok) as Hsok. fold sc in Hsok.
  pose proof (next_none_iff sc (srun sc evs) s' r Hsok (sinv_run sc evs Hsok) eq_refl Halive Hstep) as H.
  assert (Hn : sc_n sc = ncount (builder_run ops)).
  { unfold sc, mk_scfg. simpl. unfold fg_n. rewrite (bo_nodes _ _ _ _ Hok). reflexivity. }
  rewrite Hn in H. exact H.
Qed.
Print Assumptions C03_stream_none_all.

(** A call that has returned without an interruption having been delivered and without a failure
    has handed out every function of the graph, each exactly once. *)
Theorem C03_exactly_once_clean : forall ops G p q rev a mt ctl lim st incl imm evs o,
  build (builder_run ops) = BOk G p q ->
  let s := run (mk_cfg G rev a mt ctl lim st incl imm true) evs in
  result s = Some o -> w_ian (w s) = false -> failed (trace s) = [] ->
  Permutation (starts (trace s)) (seq 0 (ncount (builder_run ops))).
Proof.
  intros ops G p q rev a mt ctl lim st incl imm evs o Hb s Hres Hi Hf.
  pose proof (build_ok_intro ops G p q Hb) as Hok.
  set (cf := mk_cfg G rev a mt ctl lim st incl imm true) in *.
  destruct (inv2_run cf evs (cfg_ok_mk _ _ _ _ rev a mt ctl lim st incl imm true Hok) eq_refl) as [H1 H2].
  fold s in H1, H2.
  assert (Hn : c_n cf = ncount (builder_run ops)).
  { unfold cf, mk_cfg. simpl. unfold fg_n. rewrite (bo_nodes _ _ _ _ Hok). reflexivity. }
  assert (Herr : s_err s = None).
  { destruct (s_err s) eqn:He; [|reflexivity]. exfalso.
    destruct (x_serr_some _ _ H2 n He) as (_ & _ & T1 & Ht & _). rewrite Ht, failed_app in Hf. simpl in Hf.
    destruct (failed T1); discriminate. }
  rewrite <- Hn. apply (ret_all_started cf s o H1 H2 Hres).
  apply (ret_finished_iff cf s o H1 H2 Hres Herr). apply (ret_clean_finished cf s o H1 H2 Hres Herr Hi Hf).
Qed.
Print Assumptions C03_exactly_once_clean.

(** Non-vacuity: a diamond 0 -> {1,2} -> 3 run to completion by for_each_concurrent: the call returns,
    no interruption, no failure, and the four functions started once each. *)
Example C03_example :
  let ops := [AddFn (mkFn 0 [] []); AddFn (mkFn 1 [] []); AddFn (mkFn 2 [] []); AddFn (mkFn 3 [] []);
              AddLogic 0 1; AddLogic 0 2; AddLogic 1 3; AddLogic 2 3] in
  match build (builder_run ops) with
  | BOk G _ _ =>
    let s := run (mk_cfg G false AForEach false false 0 SFinish true [] true)
                 [ESettle; ECmp 0 true; ESettle; ECmp 2 true; ECmp 1 true; ESettle; ECmp 3 true; ESettle] in
    is_none (result s) = false /\ w_ian (w s) = false /\ failed (trace s) = [] /\ starts (trace s) = [0; 2; 1; 3]
  | _ => False
  end.
Proof. vm_compute. repeat split; reflexivity. Qed.
