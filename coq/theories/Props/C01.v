(** C01 — functions with conflicting data access never run at the same time. *)
From FG Require Import Dag Builder Sched DagFacts EdgeFacts RankFacts BuilderFacts TopoFacts AugFacts BuildFacts
     SchedInv SafetyFacts CfgFacts StreamInv SI_Queuer SI_Step SI_Stream SafetyInv StreamFacts SelfSignal SelfSignalInv.

(** For every builder call sequence, every two distinct functions whose declarations conflict,
    every concurrent call configuration and every event list: in every prefix [T0] of the trace in
    which both have been handed out, one of them has already returned. *)
Theorem C01_call : forall ops G p q rev a mt ctl lim st incl imm er evs i j,
  build (builder_run ops) = BOk G p q ->
  i < ncount (builder_run ops) -> j < ncount (builder_run ops) -> i <> j -> conflicting (builder_run ops) i j ->
  forall T0 T', trace (run (mk_cfg G rev a mt ctl lim st incl imm er) evs) = T0 ++ T' ->
  In i (starts T0) -> In j (starts T0) -> In i (ends T0) \/ In j (ends T0).
Proof.
  intros ops G p q rev a mt ctl lim st incl imm er evs i j Hb Hi Hj Hne Hc.
  pose proof (build_ok_intro ops G p q Hb) as Hok.
  set (cf := mk_cfg G rev a mt ctl lim st incl imm er).
  pose proof (inv_run cf evs (cfg_ok_mk _ _ _ _ rev a mt ctl lim st incl imm er Hok)) as Hinv.
  apply (path_no_overlap (c_es cf)); [apply (v_trace _ _ Hinv) | exact Hne |].
  assert (Hpath : Path (fg_edges G) i j \/ Path (fg_edges G) j i).
  { destruct (lexlt_total (fg_ranks G) i j Hne) as [Hlt|Hlt].
    - left. apply (bo_conn _ _ _ _ Hok); assumption.
    - right. apply (bo_conn _ _ _ _ Hok); try assumption. unfold conflicting in *. rewrite conflict_sym. exact Hc. }
  unfold cf. rewrite (mk_cfg_es _ _ _ _ rev a mt ctl lim st incl imm er Hok). destruct rev.
  - destruct Hpath as [H|H]; [right | left]; apply (proj2 (Path_flip _ _ _)); exact H.
  - exact Hpath.
Qed.
Print Assumptions C01_call.

Theorem C01_stream : forall ops G p q rev st intr drain evs i j,
  build (builder_run ops) = BOk G p q ->
  i < ncount (builder_run ops) -> j < ncount (builder_run ops) -> i <> j -> conflicting (builder_run ops) i j ->
  forall T0 T', trace (srun (mk_scfg G rev st intr drain) evs) = T0 ++ T' ->
  In i (starts T0) -> In j (starts T0) -> In i (ends T0) \/ In j (ends T0).
Proof.
  intros ops G p q rev st intr drain evs i j Hb Hi Hj Hne Hc.
  pose proof (build_ok_intro ops G p q Hb) as Hok.
  set (sc := mk_scfg G rev st intr drain).
  pose proof (sinv_run sc evs (scfg_ok_mk _ _ _ _ rev st intr drain Hok)) as Hinv.
  apply (path_no_overlap (sc_es sc)); [apply (sv_trace _ _ Hinv) | exact Hne |].
  assert (Hpath : Path (fg_edges G) i j \/ Path (fg_edges G) j i).
  { destruct (lexlt_total (fg_ranks G) i j Hne) as [Hlt|Hlt].
    - left. apply (bo_conn _ _ _ _ Hok); assumption.
    - right. apply (bo_conn _ _ _ _ Hok); try assumption. unfold conflicting in *. rewrite conflict_sym. exact Hc. }
  unfold sc. rewrite (mk_scfg_es _ _ _ _ rev st intr drain Hok). destruct rev.
  - destruct Hpath as [H|H]; [right | left]; apply (proj2 (Path_flip _ _ _)); exact H.
  - exact Hpath.
Qed.
Print Assumptions C01_stream.


(** Exclusivity also holds when a user future sends the interrupt signal itself, inside a poll of the call
    ([SelfSignal.run_sig]; known finding F4 concerns the C08 bound only). *)
Theorem C01_call_when_a_user_future_sends_the_signal : forall ops G p q rev a mt ctl lim st incl imm er sg evs i j,
  build (builder_run ops) = BOk G p q ->
  i < ncount (builder_run ops) -> j < ncount (builder_run ops) -> i <> j -> conflicting (builder_run ops) i j ->
  forall T0 T', trace (fst (run_sig sg (mk_cfg G rev a mt ctl lim st incl imm er) evs)) = T0 ++ T' ->
  In i (starts T0) -> In j (starts T0) -> In i (ends T0) \/ In j (ends T0).
Proof.
  intros ops G p q rev a mt ctl lim st incl imm er sg evs i j Hb Hi Hj Hne Hc.
  pose proof (build_ok_intro ops G p q Hb) as Hok.
  set (cf := mk_cfg G rev a mt ctl lim st incl imm er).
  pose proof (inv_run_sig sg cf evs (cfg_ok_mk _ _ _ _ rev a mt ctl lim st incl imm er Hok)) as Hinv.
  apply (path_no_overlap (c_es cf)); [apply (v_trace _ _ Hinv) | exact Hne |].
  assert (Hpath : Path (fg_edges G) i j \/ Path (fg_edges G) j i).
  { destruct (lexlt_total (fg_ranks G) i j Hne) as [Hlt|Hlt].
    - left. apply (bo_conn _ _ _ _ Hok); assumption.
    - right. apply (bo_conn _ _ _ _ Hok); try assumption. unfold conflicting in *. rewrite conflict_sym. exact Hc. }
  unfold cf. rewrite (mk_cfg_es _ _ _ _ rev a mt ctl lim st incl imm er Hok). destruct rev.
  - destruct Hpath as [H|H]; [right | left]; apply (proj2 (Path_flip _ _ _)); exact H.
  - exact Hpath.
Qed.
Print Assumptions C01_call_when_a_user_future_sends_the_signal.

(** Non-vacuity: two root writers of the same type; the second starts only after the first ended. *)
Example C01_example :
  let ops := [AddFn (mkFn 0 [] [0]); AddFn (mkFn 1 [] [0])] in
  match build (builder_run ops) with
  | BOk G _ _ =>
    conflicting (builder_run ops) 0 1 /\
    trace (run (mk_cfg G false AForEach false false 0 SNonInt true [] true) [ESettle; ECmp 0 true; ESettle]) = [Start 0; End 0 true; Start 1]
  | _ => False
  end.
Proof. vm_compute. split; reflexivity. Qed.
