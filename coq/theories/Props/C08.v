(** C08 — interruption stops new work within a fixed bound and loses nothing started.
    Proved here for the call APIs (fold / try_fold / for_each / try_for_each, mut and control
    variants, every limit and order) and for stream_interruptible. "Loses nothing started / the call returns": C04, C09.
    "With NonInterruptible or IgnoreInterruptions a signal never changes which functions run":
    [C08_ignore_transparent_call/_stream]: deleting every signal from any history leaves the whole
    state (trace, outcome, items yielded, wake-ups) unchanged except the wrapper's own bookkeeping. *)
From FG Require Import Dag Builder Sched DagFacts EdgeFacts RankFacts BuilderFacts TopoFacts AugFacts BuildFacts
     SchedInv SchedInv2 SafetyFacts CfgFacts SI_Queuer SI_Step SI2_Step LiveRun IntCredit IntRun IntStream IntTransparent Opts OptsFacts SelfSignal SelfSignalFacts.

Definition interrupt_bound (st : strat) (incl pending : bool) : nat :=
  match st with
  | SFinish | SPollN 0 => if incl && pending then 1 else 0
  | SPollN (S k') => S k'
  | _ => 0
  end.

Lemma new_keys_nil_ids ms : new_keys ms = [] -> new_ids ms = [].
Proof.
  induction ms as [|m ms IH]; intros H; [reflexivity|].
  unfold new_keys in H. simpl in H. unfold new_ids. simpl.
  destruct (m_st m); [simpl in H; discriminate|]. simpl. apply IH. exact H.
Qed.

(** [evs1] is any history of the call before the signal, [evs2] any continuation after it. The
    number of functions started after the signal was sent is at most the bound: for FinishCurrent
    (and PollNextN 0) one – and only if the include flag is on and the scheduler was waiting for an
    item ([w_hp]) –, for PollNextN (S k) at most S k. *)
Theorem C08_started_after_signal : forall ops G p q rev a mt ctl lim st incl imm evs1 evs2,
  build (builder_run ops) = BOk G p q -> st <> SNonInt -> st <> SIgnore ->
  let cf := mk_cfg G rev a mt ctl lim st incl imm true in
  let s1 := run cf evs1 in
  let s2 := run cf (evs1 ++ EInt :: evs2) in
  length (starts (trace s2)) <= length (starts (trace s1)) + interrupt_bound st incl (w_hp (w s1)).
Proof.
  intros ops G p q rev a mt ctl lim st incl imm evs1 evs2 Hb N1 N2 cf s1 s2.
  pose proof (build_ok_intro ops G p q Hb) as Hok.
  pose proof (cfg_ok_mk _ _ _ _ rev a mt ctl lim st incl imm true Hok) as Hc. fold cf in Hc.
  destruct (inv2_run cf evs1 Hc eq_refl) as [_ X1]. fold s1 in X1.
  destruct (inv2_run cf (evs1 ++ EInt :: evs2) Hc eq_refl) as [_ X2]. fold s2 in X2.
  pose proof (boundary_run cf evs1 Hc eq_refl) as Hb1. fold s1 in Hb1.
  pose proof (wrap_ok_run cf evs1) as Hw. fold s1 in Hw.
  assert (Hs2 : s2 = fold_left (step cf) (EInt :: evs2) s1).
  { unfold s2, s1, run. rewrite fold_left_app. reflexivity. }
  pose proof (processed_after_signal_gen cf s1 evs2 N1 N2 Hw) as Hcred. rewrite <- Hs2 in Hcred.
  rewrite (x_processed _ _ X2), (x_processed _ _ X1), (new_keys_nil_ids _ Hb1), app_nil_r, app_length in Hcred.
  unfold interrupt_bound. unfold cf in Hcred at 1 2. simpl in Hcred. lia.
Qed.
Print Assumptions C08_started_after_signal.

(** The strategy and the include flag reach the call through `StreamOpts`, assembled by a chain of
    builder calls in any order ([Opts.opts_build]).  The bound is the one of the *last*
    `interruptibility_state` and the *last* `interrupted_next_item_include` of the chain (defaults:
    non-interruptible, include = true): no later call of another setter resets either, whatever the
    order of the chain. *)
Theorem C08_bound_for_any_setter_chain : forall ops G p q calls a mt ctl lim imm evs1 evs2,
  build (builder_run ops) = BOk G p q ->
  let st := last_state calls SNonInt in
  let incl := last_incl calls true in
  st <> SNonInt -> st <> SIgnore ->
  let cf := mk_cfg_opts G (opts_build calls) a mt ctl lim imm true in
  let s1 := run cf evs1 in
  let s2 := run cf (evs1 ++ EInt :: evs2) in
  length (starts (trace s2)) <= length (starts (trace s1)) + interrupt_bound st incl (w_hp (w s1)).
Proof.
  intros ops G p q calls a mt ctl lim imm evs1 evs2 Hb st incl N1 N2.
  unfold mk_cfg_opts. rewrite opts_build_spec. cbn [so_rev so_strat so_incl].
  apply (C08_started_after_signal ops G p q (existsb is_rev calls) a mt ctl lim st incl imm evs1 evs2 Hb N1 N2).
Qed.
Print Assumptions C08_bound_for_any_setter_chain.

(** In particular `interrupted_next_item_include(false)` followed by `interruptibility_state(..)`
    (and any `rev()`s) still means "start nothing more after the signal" under FinishCurrent. *)
Theorem C08_include_false_survives_later_setters : forall pre post st,
  (forall c, In c post -> match c with OIncl _ => False | _ => True end) ->
  so_incl (opts_build (pre ++ OIncl false :: post ++ [OState st])) = false.
Proof.
  intros pre post st Hpost. apply (opts_incl_survives pre false (post ++ [OState st])).
  intros c Hin. apply in_app_or in Hin. destruct Hin as [Hin | [<- | []]]; [apply Hpost; exact Hin | exact I].
Qed.
Print Assumptions C08_include_false_survives_later_setters.

(** The signal is already pending when the call begins: FinishCurrent (and PollNextN 0) runs
    nothing, PollNextN (S k) at most S k functions. *)
Corollary C08_signal_before_first_poll : forall ops G p q rev a mt ctl lim st incl imm evs,
  build (builder_run ops) = BOk G p q -> st <> SNonInt -> st <> SIgnore ->
  let cf := mk_cfg G rev a mt ctl lim st incl imm true in
  length (starts (trace (run cf (EInt :: evs)))) <= match st with SPollN (S k') => S k' | _ => 0 end.
Proof.
  intros ops G p q rev a mt ctl lim st incl imm evs Hb N1 N2 cf.
  pose proof (C08_started_after_signal ops G p q rev a mt ctl lim st incl imm [] evs Hb N1 N2) as H.
  simpl in H. fold cf in H.
  assert (Hi : trace (run cf []) = [] /\ w (run cf []) = wrap0).
  { unfold run. simpl. unfold init.
    destruct (fold_left preload_one (preload_ids cf) (mkChan [] (Nat.max 1 (c_n cf)) 1 true false, [], false)) as [[rc sent] bad].
    destruct bad; [unfold set_panic; simpl|]; split; reflexivity. }
  destruct Hi as [Ht Hw]. rewrite Ht, Hw in H. unfold interrupt_bound in H. simpl in H.
  destruct st as [| | |[|k]]; destruct incl; simpl in *; lia.
Qed.
Print Assumptions C08_signal_before_first_poll.

(** stream_interruptible: after the signal the stream yields at most the bound's number of further
    FnRefs ([processed] is the list of functions yielded), whatever the consumer does (polls, FnRef
    drops in any order, more signals, dropping the stream). *)
Theorem C08_stream_yielded_after_signal : forall G rev st drain evs1 evs2,
  st <> SNonInt -> st <> SIgnore ->
  let sc := mk_scfg G rev st true drain in
  let s1 := srun sc evs1 in
  let s2 := srun sc (evs1 ++ SInt :: evs2) in
  length (processed s2) <= length (processed s1) + interrupt_bound st true (w_hp (w s1)).
Proof.
  intros G rev st drain evs1 evs2 N1 N2 sc s1 s2.
  assert (Hs2 : s2 = fold_left (fun s e => fst (sstep sc s e)) (SInt :: evs2) s1).
  { unfold s2, s1, srun. rewrite fold_left_app. reflexivity. }
  pose proof (yielded_after_signal sc s1 evs2 eq_refl N1 N2 (swrap_ok_run sc evs1)) as H.
  rewrite <- Hs2 in H. unfold interrupt_bound. exact H.
Qed.
Print Assumptions C08_stream_yielded_after_signal.

(** Once the wrapper has reported the interruption, every later poll_next yields None. *)
Theorem C08_stream_ends_after_interrupted : forall G rev st drain evs,
  let sc := mk_scfg G rev st true drain in
  s_alive (srun sc evs) = true -> w_ian (w (srun sc evs)) = true ->
  snd (sstep sc (srun sc evs) SNext) = WNone /\
  w_ian (w (fst (sstep sc (srun sc evs) SNext))) = true.
Proof.
  intros G rev st drain evs sc Ha Hn. split.
  - apply sstep_after_interrupted; [reflexivity | exact Ha | exact Hn].
  - rewrite (sstep_after_interrupted_state sc _ eq_refl Ha Hn). exact Hn.
Qed.
Print Assumptions C08_stream_ends_after_interrupted.

(** NonInterruptible / IgnoreInterruptions: the wrapper never ends the stream by itself and never
    produces an Interrupted item. *)
Theorem C08_ignore_transparent_partial : forall cf s s' r,
  (c_strat cf = SNonInt \/ c_strat cf = SIgnore) -> w_ian (w s) = false -> w_sig (w s) = false ->
  tracked_poll cf s = (s', r) ->
  w_ian (w s') = false /\ w_sig (w s') = false /\ (forall o, r <> WInt o).
Proof. exact wrapper_transparent. Qed.
Print Assumptions C08_ignore_transparent_partial.

(** Run level: with NonInterruptible or IgnoreInterruptions, removing all signals from a history
    changes nothing but the wrapper's private counters: same trace (which functions run, in which
    order, with which outcome), same result, same processed list, same wake-ups. *)
Theorem C08_ignore_transparent_call : forall cf evs,
  c_strat cf = SNonInt \/ c_strat cf = SIgnore ->
  same_but_wrap (run cf evs) (run cf (strip evs)) /\
  trace (run cf evs) = trace (run cf (strip evs)) /\ result (run cf evs) = result (run cf (strip evs)) /\
  processed (run cf evs) = processed (run cf (strip evs)) /\ woken (run cf evs) = woken (run cf (strip evs)).
Proof. intros cf evs H. split; [apply ignore_run_equiv | apply ignore_same_trace]; exact H. Qed.
Print Assumptions C08_ignore_transparent_call.

(** Streams (also the non-interruptible `stream()`): the sequence of poll_next answers is the same
    with and without the signals. *)
Theorem C08_ignore_transparent_stream : forall sc evs,
  sc_interruptible sc = false \/ sc_strat sc = SNonInt \/ sc_strat sc = SIgnore ->
  same_but_wrap (srun sc evs) (srun sc (sstrip evs)) /\ souts sc evs = souts sc (sstrip evs) /\
  trace (srun sc evs) = trace (srun sc (sstrip evs)).
Proof.
  intros sc evs H. split; [apply ignore_srun_equiv; exact H|]. split; [apply ignore_souts_equiv; exact H|].
  apply (ignore_same_strace sc evs H).
Qed.
Print Assumptions C08_ignore_transparent_stream.

(** Non-vacuity: chain 0 -> 1 -> 2, FinishCurrent, signal while 0 is in flight: with the include flag
    exactly one more function (1) starts, without it none. *)
Example C08_example :
  let ops := [AddFn (mkFn 0 [] []); AddFn (mkFn 1 [] []); AddFn (mkFn 2 [] []); AddLogic 0 1; AddLogic 1 2] in
  match build (builder_run ops) with
  | BOk G _ _ =>
    let evs := [ESettle; EInt; ECmp 0 true; ESettle; ECmp 1 true; ESettle] in
    starts (trace (run (mk_cfg G false AForEach false false 0 SFinish true [] true) evs)) = [0; 1] /\
    starts (trace (run (mk_cfg G false AForEach false false 0 SFinish false [] true) evs)) = [0]
  | _ => False
  end.
Proof. vm_compute. split; reflexivity. Qed.

(** ** The signal sent from inside a poll of the call: the bound does NOT hold (known finding)

    Every theorem above takes the signal as an event of its own ([EInt]) between two polls of the
    call -- all that another task of a single-threaded executor, or a signal handler that posts to
    the executor, can do.  A user future runs inside a poll; if it sends the signal itself, ids that
    `for_each_concurrent` took from the ready stream earlier in the same poll have blocks whose first
    poll (= the call of the user closure, [Start]) is still to come.  [SelfSignal] is [Sched] with a
    designated function [sg] whose user future sends the signal in the poll in which it resolves
    ([run_sig_none]: without such a function it is the verified machine).  For it the statement
    "after the signal has been sent at most [interrupt_bound] more functions start" is false: *)
Theorem C08_signal_free_variant_is_the_verified_machine : forall cf evs,
  run_sig None cf evs = (run cf evs, None).
Proof. exact run_sig_none. Qed.
Print Assumptions C08_signal_free_variant_is_the_verified_machine.

Definition c08_selfsig_ops : list bop :=
  [AddFn (mkFn 0 [] []); AddFn (mkFn 1 [] []); AddFn (mkFn 2 [] []); AddFn (mkFn 3 [] []);
   AddFn (mkFn 4 [] []); AddFn (mkFn 5 [] []); AddLogic 0 4; AddLogic 1 5].
Definition c08_selfsig_evs : list event :=
  [ESettle; ECmp 0 true; ECmp 1 true; EPoll; ECmp 2 true; ECmp 3 true; EPoll].

(** for_each_concurrent_with, FinishCurrent, interrupted_next_item_include(false): bound 0; functions 2
    and 3 resolve, 3 sends the signal when polled; 4 and 5 (taken from the ready stream just before, in
    the same poll) start afterwards.  Replayed on the implementation: corpus/c08_selfsig.case. *)
Theorem C08_refuted_signal_sent_inside_a_poll :
  exists ops G p q evs j,
    build (builder_run ops) = BOk G p q /\
    let cf := mk_cfg G false AForEach false false 0 SFinish false [] true in
    interrupt_bound SFinish false true < length (started_after_mark (run_sig (Some j) cf evs)) /\
    started_after_mark (run_sig (Some j) cf evs) = [4; 5].
Proof.
  destruct (build (builder_run c08_selfsig_ops)) as [| |G p q] eqn:Hb;
    [vm_compute in Hb; discriminate Hb | vm_compute in Hb; discriminate Hb |].
  exists c08_selfsig_ops, G, p, q, c08_selfsig_evs, 3. split; [exact Hb|].
  vm_compute in Hb. injection Hb as <- _ _. vm_compute. split; [apply le_S, le_n | reflexivity].
Qed.
Print Assumptions C08_refuted_signal_sent_inside_a_poll.
