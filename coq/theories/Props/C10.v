(** C10 — the concurrency limit is respected (and never blocks completion: C04). *)
From FG Require Import Dag Builder Sched DagFacts EdgeFacts RankFacts BuilderFacts TopoFacts AugFacts BuildFacts
     SchedInv SchedInv2 SafetyFacts CfgFacts SI_Queuer SI_Step SI2_Step SafetyInv OutcomeFacts.
From Coq Require Import Permutation.
From FG Require Import Props.C09.

(** for_each_concurrent* / try_for_each_concurrent* with limit >= 1, and fold_async* /
    try_fold_async* (limit 1): in every prefix of the trace of every run, the number of user
    futures started exceeds the number completed by at most the limit. *)
Theorem C10_limit_respected : forall ops G p q rev a mt ctl lim st incl imm evs T0 T1,
  build (builder_run ops) = BOk G p q ->
  let cf := mk_cfg G rev a mt ctl lim st incl imm true in
  eff_limit cf <> 0 ->
  trace (run cf evs) = T0 ++ T1 ->
  length (starts T0) <= length (ends T0) + eff_limit cf.
Proof.
  intros ops G p q rev a mt ctl lim st incl imm evs T0 T1 Hb cf Hl Ht.
  destruct (run_invs ops G p q rev a mt ctl lim st incl imm evs Hb) as (H1 & H2 & Hn).
  apply (x_inflight _ _ H2 Hl T0 T1 Ht).
Qed.
Print Assumptions C10_limit_respected.

Theorem C10_fold_is_sequential : forall cf, is_seq (c_api cf) = true -> eff_limit cf = 1.
Proof. intros cf H. unfold eff_limit. rewrite H. reflexivity. Qed.
Print Assumptions C10_fold_is_sequential.

Example C10_example :
  let ops := [AddFn (mkFn 0 [] []); AddFn (mkFn 1 [] []); AddFn (mkFn 2 [] [])] in
  match build (builder_run ops) with
  | BOk G _ _ =>
    trace (run (mk_cfg G false AForEach false false 1 SNonInt true [] true) [ESettle; ECmp 2 true; ESettle]) = [Start 2; End 2 true; Start 1]
  | _ => False
  end.
Proof. vm_compute. reflexivity. Qed.
