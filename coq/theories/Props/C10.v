(** C10 — the concurrency limit is respected and never blocks completion. *)
From FG Require Import Dag Builder Sched DagFacts EdgeFacts RankFacts BuilderFacts TopoFacts AugFacts BuildFacts
     SchedInv SchedInv2 SafetyFacts CfgFacts SI_Queuer SI_Step SI2_Step SafetyInv OutcomeFacts.
From Coq Require Import Permutation.
From FG Require Import Props.C09 Props.C03 SchedInv3 SI3_Run LiveRun SettleFacts DriveFacts.

(** for_each_concurrent* / try_for_each_concurrent* with limit >= 1, and fold_async* /
    try_fold_async* (limit 1): in every prefix of the trace of every run, the number of user
    futures started exceeds the number completed by at most the limit. *)
Theorem C10_limit_respected : forall ops G p q rev a mt ctl lim st incl imm evs T0 T1,
  build (builder_run ops) = BOk G p q ->
  let cf := mk_cfg G rev a mt ctl lim st incl imm true in
  eff_limit cf <> 0 ->
  trace (run cf evs) = T0 ++ T1 ->
  length (starts T0) <= length (ends T0) + eff_limit cf.
Proof.
  intros ops G p q rev a mt ctl lim st incl imm evs T0 T1 Hb cf Hl Ht.
  destruct (run_invs ops G p q rev a mt ctl lim st incl imm evs Hb) as (H1 & H2 & Hn).
  apply (x_inflight _ _ H2 Hl T0 T1 Ht).
Qed.
Print Assumptions C10_limit_respected.

(** The limit also holds when a user future sends the interrupt signal itself, inside a poll of the
    call ([SelfSignal.run_sig]; known finding F4 concerns the C08 bound only). *)
Theorem C10_limit_respected_when_a_user_future_sends_the_signal :
  forall ops G p q rev a mt ctl lim st incl imm sg evs T0 T1,
  build (builder_run ops) = BOk G p q ->
  let cf := mk_cfg G rev a mt ctl lim st incl imm true in
  eff_limit cf <> 0 ->
  trace (fst (SelfSignal.run_sig sg cf evs)) = T0 ++ T1 ->
  length (starts T0) <= length (ends T0) + eff_limit cf.
Proof.
  intros ops G p q rev a mt ctl lim st incl imm sg evs T0 T1 Hb cf Hl Ht.
  destruct (run_sig_invs ops G p q rev a mt ctl lim st incl imm sg evs Hb) as (H1 & H2 & Hn).
  apply (x_inflight _ _ H2 Hl T0 T1 Ht).
Qed.
Print Assumptions C10_limit_respected_when_a_user_future_sends_the_signal.

Theorem C10_fold_is_sequential : forall cf, is_seq (c_api cf) = true -> eff_limit cf = 1.
Proof. intros cf H. unfold eff_limit. rewrite H. reflexivity. Qed.
Print Assumptions C10_fold_is_sequential.

(** Driving a call keeps it among the reachable states. *)
Lemma drive_reachable cf pick : forall k evs, exists evs', drive pick k cf (run cf evs) = run cf evs'.
Proof.
  induction k as [|k IH]; intros evs; cbn [drive].
  - exists (evs ++ [ESettle]). rewrite run_snoc. reflexivity.
  - change (settle (settle_fuel cf) cf (run cf evs)) with (step cf (run cf evs) ESettle).
    rewrite <- run_snoc. destruct (is_none (result (run cf (evs ++ [ESettle])))).
    + rewrite <- run_snoc. apply IH.
    + exists (evs ++ [ESettle]). reflexivity.
Qed.

(** Any limit (0 = unbounded, 1, 2, ... and the implicit 1 of the folds) still lets every graph
    run to completion: from the state after ANY history, every scheduler that keeps completing
    in-flight user futures makes the call return; and if no interruption was delivered and no
    function failed, every function of the graph has then been run. *)
Theorem C10_limit_never_blocks_completion : forall ops G p q rev a mt ctl lim st incl imm evs pick,
  build (builder_run ops) = BOk G p q -> fair_pick pick ->
  let cf := mk_cfg G rev a mt ctl lim st incl imm true in
  let s := drive pick (c_n cf - length (ends (trace (run cf evs)))) cf (run cf evs) in
  exists o, result s = Some o /\
    (w_ian (w s) = false -> failed (trace s) = [] ->
     Permutation (starts (trace s)) (seq 0 (ncount (builder_run ops)))).
Proof.
  intros ops G p q rev a mt ctl lim st incl imm evs pick Hb Hp cf s.
  pose proof (build_ok_intro ops G p q Hb) as Hok.
  pose proof (cfg_ok_mk _ _ _ _ rev a mt ctl lim st incl imm true Hok) as Hc. fold cf in Hc.
  pose proof (eventually_returns_sharp cf evs pick Hc eq_refl Hp) as Hr. fold s in Hr.
  destruct (drive_reachable cf pick (c_n cf - length (ends (trace (run cf evs)))) evs) as [evs' He].
  fold s in He. destruct (result s) as [o|] eqn:Hres; [|congruence].
  exists o. split; [reflexivity|]. intros Hi Hf. rewrite He in Hres, Hi, Hf |- *.
  exact (C03_exactly_once_clean ops G p q rev a mt ctl lim st incl imm evs' o Hb Hres Hi Hf).
Qed.
Print Assumptions C10_limit_never_blocks_completion.

Example C10_example :
  let ops := [AddFn (mkFn 0 [] []); AddFn (mkFn 1 [] []); AddFn (mkFn 2 [] [])] in
  match build (builder_run ops) with
  | BOk G _ _ =>
    trace (run (mk_cfg G false AForEach false false 1 SNonInt true [] true) [ESettle; ECmp 2 true; ESettle]) = [Start 2; End 2 true; Start 1]
  | _ => False
  end.
Proof. vm_compute. reflexivity. Qed.
