(** C16 — the builder rejects exactly the edges that would close a cycle. *)
From FG Require Import Dag Builder DagFacts EdgeFacts BuilderFacts.

(** Every builder state reached by any call sequence is well-formed: ids in range, acyclic,
    at most one edge per ordered pair. *)
Theorem C16_builder_wf : forall ops, wf_dag (builder_run ops).
Proof. exact builder_wf. Qed.
Print Assumptions C16_builder_wf.

(** One `add_logic_edge` / `add_contains_edge` call with ids returned by `add_fn`, on any
    reachable builder state [g]: it is refused iff [a = b] or the accepted edges already contain a
    path [b ~> a]; a refusal changes nothing; an accepted call overwrites the kind in place when
    the ordered pair already has an edge (position and every other edge unchanged – "the most
    recently given kind wins") and otherwise appends the edge. *)
Theorem C16_edge_call : forall ops a b k,
  let g := builder_run ops in
  a < ncount g -> b < ncount g ->
  let '(g', r) := apply_edge g a b k in
  nodes g' = nodes g /\ wf_dag g' /\
  ((r = ECycle /\ edges g' = edges g /\ (a = b \/ Path (edges g) b a)) \/
   (r = EOk /\ Edge (edges g) a b /\ edges g' = set_kind (edges g) a b k /\ ~ (a = b \/ Path (edges g) b a)) \/
   (r = EOk /\ ~ Edge (edges g) a b /\ edges g' = edges g ++ [(a, b, k)] /\ ~ (a = b \/ Path (edges g) b a))).
Proof. intros ops a b k g Ha Hb. apply apply_edge_spec; [apply builder_wf | exact Ha | exact Hb]. Qed.
Print Assumptions C16_edge_call.

(** What overwriting means for the edge set. *)
Theorem C16_overwrite_spec : forall es a b k e,
  uniq_pairs es -> Edge es a b ->
  (In e (set_kind es a b k) <-> (e = (a, b, k) \/ (In e es /\ fst e <> (a, b)))).
Proof. exact set_kind_In. Qed.
Print Assumptions C16_overwrite_spec.

(** Batch forms apply the calls left to right and stop at the first refusal. *)
Theorem C16_batch : forall g a b l k,
  apply_batch g ((a, b) :: l) k =
  match apply_edge g a b k with
  | (g', EOk) => apply_batch g' l k
  | (g', r) => (g', r)
  end.
Proof. exact apply_batch_cons. Qed.
Print Assumptions C16_batch.

Example C16_example :
  let ops := [AddFn (mkFn 0 [] []); AddFn (mkFn 1 [] []); AddFn (mkFn 2 [] []);
              AddLogic 0 1; AddLogic 1 2; AddLogic 2 0; AddContains 0 1; AddLogic 1 1] in
  snd (run_ops empty_dag ops) = [RId 0; RId 1; RId 2; ROk; ROk; RCycle; ROk; RCycle]
  /\ edges (builder_run ops) = [(0, 1, Contains); (1, 2, Logic)].
Proof. vm_compute. split; reflexivity. Qed.
