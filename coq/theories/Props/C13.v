(** C13 — ranks() is the longest dependency chain ending at each function. *)
From FG Require Import Dag Builder DagFacts EdgeFacts RankFacts BuilderFacts.

(** For every builder call sequence: `build()` computes ranks (no fuel exhaustion), one per
    function, and the rank of [v] is the number of edges of the longest chain of user
    (logic/contains) edges ending at [v] — in particular 0 exactly for functions without
    predecessor.  The rank computation reads only the node count and the user edges: kinds,
    insertion order of the calls and access declarations play no role in the statement. *)
Theorem C13_ranks_longest_chain : forall ops,
  let B := builder_run ops in
  exists rk pops, rank_calc (ncount B) (edges B) = (rk, pops, false) /\
    length rk = ncount B /\
    forall v, v < ncount B -> longest_chain (edges B) v (nth v rk 0).
Proof.
  intros ops B.
  destruct (rank_calc_correct_and_bounded (ncount B) (edges B) (builder_wf ops)) as [rk [pops [H1 [H2 [H3 _]]]]].
  exists rk, pops. split; [exact H1|]. split; [exact H2|]. exact H3.
Qed.
Print Assumptions C13_ranks_longest_chain.

(** The ranks stored in the built graph are those ranks. *)
Theorem C13_build_ranks : forall ops G p q,
  build (builder_run ops) = BOk G p q ->
  forall v, v < ncount (builder_run ops) -> longest_chain (edges (builder_run ops)) v (nth v (fg_ranks G) 0).
Proof.
  intros ops G p q Hb v Hv.
  destruct (C13_ranks_longest_chain ops) as [rk [pops [H1 [H2 H3]]]].
  unfold build in Hb. rewrite H1 in Hb.
  destruct (a_panic _) in Hb; [discriminate|].
  destruct (copy_struct _ _ _ _) as [[st str]|] in Hb; [|discriminate].
  inversion Hb; subst. simpl. apply H3. exact Hv.
Qed.
Print Assumptions C13_build_ranks.

(** Non-vacuity: a diamond with a shortcut, inserted out of order; ranks 0,1,1,2 / chain of 2. *)
Example C13_example :
  let ops := [AddFn (mkFn 0 [] []); AddFn (mkFn 1 [] [0]); AddFn (mkFn 2 [0] []); AddFn (mkFn 3 [] []);
              AddLogic 2 3; AddContains 0 3; AddLogic 0 2; AddLogic 0 1; AddContains 1 3] in
  fst (fst (rank_calc (ncount (builder_run ops)) (edges (builder_run ops)))) = [0; 1; 1; 2].
Proof. vm_compute. reflexivity. Qed.
