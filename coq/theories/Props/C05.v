(** C05 — stream() never stalls and ends exactly when all functions were yielded.
    All four variants (stream / stream_with / stream_interruptible / stream_with_interruptible). *)
From FG Require Import Dag Builder Sched DagFacts EdgeFacts RankFacts BuilderFacts TopoFacts AugFacts BuildFacts
     SchedInv SafetyFacts CfgFacts StreamInv SI_Queuer SI_Step SI_Stream SafetyInv StreamFacts IntCredit StreamIntFacts StreamDrive.

(** Any interleaving of poll_next, FnRef drops (any number between two polls), interrupt signals
    and dropping the stream — in any order, drops after the stream is gone included — never reaches
    a panic site. *)
Theorem C05_stream_no_panic : forall ops G p q rev st intr drain evs,
  build (builder_run ops) = BOk G p q ->
  panic (srun (mk_scfg G rev st intr drain) evs) = None.
Proof.
  intros ops G p q rev st intr drain evs Hb.
  pose proof (build_ok_intro ops G p q Hb) as Hok.
  apply (sv_nopanic _ _ (sinv_run _ evs (scfg_ok_mk _ _ _ _ rev st intr drain Hok))).
Qed.
Print Assumptions C05_stream_no_panic.

(** The stream yields [None] exactly when all functions have been yielded. *)
Theorem C05_none_iff_all : forall ops G p q rev st drain evs s' r,
  build (builder_run ops) = BOk G p q ->
  let sc := mk_scfg G rev st false drain in
  s_alive (srun sc evs) = true ->
  sstep sc (srun sc evs) SNext = (s', r) ->
  (r = WNone <-> length (starts (trace (srun sc evs))) = ncount (builder_run ops)).
Proof.
  intros ops G p q rev st drain evs s' r Hb sc Halive Hstep.
  pose proof (build_ok_intro ops G p q Hb) as Hok.
  pose proof (scfg_ok_mk _ _ _ _ rev st false drain Hok) as Hsok. fold sc in Hsok.
  pose proof (next_none_iff sc (srun sc evs) s' r Hsok (sinv_run sc evs Hsok) eq_refl Halive Hstep) as H.
  assert (Hn : sc_n sc = ncount (builder_run ops)).
  { unfold sc, mk_scfg. simpl. unfold fg_n. rewrite (bo_nodes _ _ _ _ Hok). reflexivity. }
  rewrite Hn in H. exact H.
Qed.
Print Assumptions C05_none_iff_all.

(** Whenever a poll (after any history) returns Pending, every function not yet yielded is still
    blocked by an undropped FnRef: it has a strict ancestor in the built graph whose FnRef was
    yielded and is still held.  (With the repaired stream_internal, [drain = true]; the
    pre-repair variant violates this: Regress.C05_refuted_single_recv.) *)
Theorem C05_pending_justified : forall ops G p q rev st evs s',
  build (builder_run ops) = BOk G p q ->
  let sc := mk_scfg G rev st false true in
  s_alive (srun sc evs) = true ->
  sstep sc (srun sc evs) SNext = (s', WPending) ->
  forall c, c < ncount (builder_run ops) -> ~ In c (starts (trace s')) ->
  exists a, Path (sc_es sc) a c /\ a <> c /\ In a (wait_ids (members s')).
Proof.
  intros ops G p q rev st evs s' Hb sc Halive Hstep c Hc Hns.
  pose proof (build_ok_intro ops G p q Hb) as Hok.
  pose proof (scfg_ok_mk _ _ _ _ rev st false true Hok) as Hsok. fold sc in Hsok.
  pose proof (sinv_run sc evs Hsok) as Hinv.
  destruct (next_pending_quiet sc _ s' Hsok Hinv eq_refl eq_refl Halive Hstep) as (Hd & Hr & Hwk & Htx).
  assert (Hinv' : SInv sc s').
  { pose proof (sinv_step sc (srun sc evs) SNext Hsok Hinv) as H. rewrite Hstep in H. exact H. }
  assert (Halive' : s_alive s' = true).
  { pose proof (sv_stx _ _ Hinv') as H. rewrite Htx in H. symmetry in H. apply andb_true_iff in H. tauto. }
  assert (Hn : sc_n sc = ncount (builder_run ops)).
  { unfold sc, mk_scfg. simpl. unfold fg_n. rewrite (bo_nodes _ _ _ _ Hok). reflexivity. }
  apply (blocked_by_held_ref sc s' Hsok Hinv' Halive' Htx Hd Hr c); [rewrite Hn; exact Hc | exact Hns].
Qed.
Print Assumptions C05_pending_justified.

(** ... and such a Pending poll leaves the waker registered on the done channel, so that the drop
    of any held FnRef signals a wake-up of the polling task: no unrelated event is needed. *)
Theorem C05_drop_after_pending_wakes : forall ops G p q rev st evs s' i,
  build (builder_run ops) = BOk G p q ->
  let sc := mk_scfg G rev st false true in
  s_alive (srun sc evs) = true ->
  sstep sc (srun sc evs) SNext = (s', WPending) ->
  In i (wait_ids (members s')) ->
  woken (fst (sstep sc s' (SDrop i))) = true.
Proof.
  intros ops G p q rev st evs s' i Hb sc Halive Hstep Hi.
  pose proof (build_ok_intro ops G p q Hb) as Hok.
  pose proof (scfg_ok_mk _ _ _ _ rev st false true Hok) as Hsok. fold sc in Hsok.
  pose proof (sinv_run sc evs Hsok) as Hinv.
  destruct (next_pending_quiet sc _ s' Hsok Hinv eq_refl eq_refl Halive Hstep) as (Hd & Hr & Hwk & Htx).
  assert (Hinv' : SInv sc s').
  { pose proof (sinv_step sc (srun sc evs) SNext Hsok Hinv) as H. rewrite Hstep in H. exact H. }
  assert (Halive' : s_alive s' = true).
  { pose proof (sv_stx _ _ Hinv') as H. rewrite Htx in H. symmetry in H. apply andb_true_iff in H. tauto. }
  apply (drop_wakes sc s' i Hsok Hinv' Halive' Hwk Hi).
Qed.
Print Assumptions C05_drop_after_pending_wakes.

(** The same two facts for every variant of the stream (interruptible or not, every strategy): a
    Pending poll is justified by a held FnRef of a strict ancestor of each unyielded function, and
    dropping any held FnRef afterwards signals the wake-up. *)
Theorem C05_pending_justified_all_variants : forall ops G p q rev st intr evs s',
  build (builder_run ops) = BOk G p q ->
  let sc := mk_scfg G rev st intr true in
  s_alive (srun sc evs) = true ->
  sstep sc (srun sc evs) SNext = (s', WPending) ->
  (forall c, c < ncount (builder_run ops) -> ~ In c (starts (trace s')) ->
     exists a, Path (sc_es sc) a c /\ a <> c /\ In a (wait_ids (members s'))) /\
  (forall i, In i (wait_ids (members s')) -> woken (fst (sstep sc s' (SDrop i))) = true).
Proof. exact pending_justified_any. Qed.
Print Assumptions C05_pending_justified_all_variants.

(** Interruptible streams: None comes only after every function was yielded or after the
    interruption was reported; when every function was yielded the poll answers None (or, if a
    signal is decided in that very poll, Interrupted(None) followed by None: C08); an Interrupted
    item is produced only if a signal was really sent and the strategy listens to it. *)
Theorem C05_none_interruptible : forall ops G p q rev st drain evs s' r,
  build (builder_run ops) = BOk G p q ->
  let sc := mk_scfg G rev st true drain in
  s_alive (srun sc evs) = true ->
  sstep sc (srun sc evs) SNext = (s', r) ->
  (r = WNone -> length (starts (trace (srun sc evs))) = ncount (builder_run ops) \/ w_ian (w (srun sc evs)) = true) /\
  (length (starts (trace (srun sc evs))) = ncount (builder_run ops) -> r = WNone \/ r = WInt None) /\
  (forall o, r = WInt o -> signal_present (srun sc evs) /\ st <> SNonInt /\ st <> SIgnore /\ w_ian (w s') = true).
Proof.
  intros ops G p q rev st drain evs s' r Hb sc Halive Hstep. split; [|split].
  - intros ->. exact (none_int_run ops G p q rev st drain evs s' Hb Halive Hstep).
  - exact (all_yielded_int_run ops G p q rev st drain evs s' r Hb Halive Hstep).
  - intros o ->. exact (int_item_run sc evs s' o eq_refl Halive Hstep).
Qed.
Print Assumptions C05_none_interruptible.

(** "Once the FnRefs of all predecessors of a function have been dropped - in any number and order
    between polls - that function is yielded without any unrelated event being needed": after ANY
    history, polling until the stream stops yielding items has yielded every function none of
    whose strict ancestors is still held. *)
Theorem C05_unblocked_is_yielded : forall ops G p q rev st evs,
  build (builder_run ops) = BOk G p q ->
  let sc := mk_scfg G rev st false true in
  s_alive (srun sc evs) = true ->
  let s' := fst (spoll (S (sc_n sc)) sc (srun sc evs)) in
  forall c, c < ncount (builder_run ops) ->
    (forall a, Path (sc_es sc) a c -> a <> c -> ~ In a (wait_ids (members s'))) ->
    In c (starts (trace s')).
Proof.
  intros ops G p q rev st evs Hb sc Hal s' c Hc Hfree.
  pose proof (build_ok_intro ops G p q Hb) as Hok.
  pose proof (scfg_ok_mk _ _ _ _ rev st false true Hok) as Hsok. fold sc in Hsok.
  assert (Hn : sc_n sc = ncount (builder_run ops)).
  { unfold sc, mk_scfg. simpl. unfold fg_n. rewrite (bo_nodes _ _ _ _ Hok). reflexivity. }
  apply (unblocked_is_yielded sc evs Hsok eq_refl eq_refl Hal c); [rewrite Hn; exact Hc | exact Hfree].
Qed.
Print Assumptions C05_unblocked_is_yielded.

(** The stream never stalls: a consumer that polls only when woken ([sdrive_w]: poll until Pending,
    drop some held FnRef, poll again only if that drop signalled the wake-up) reaches the end of the
    stream within n drops, from the state after any history and for any choice of the FnRef. *)
Theorem C05_stream_eventually_ends : forall ops G p q rev st evs pick,
  build (builder_run ops) = BOk G p q ->
  let sc := mk_scfg G rev st false true in
  s_alive (srun sc evs) = true -> fair_held pick ->
  snd (sdrive_w pick (sc_n sc) sc (srun sc evs)) = WNone.
Proof.
  intros ops G p q rev st evs pick Hb sc Hal Hf.
  pose proof (build_ok_intro ops G p q Hb) as Hok.
  pose proof (scfg_ok_mk _ _ _ _ rev st false true Hok) as Hsok. fold sc in Hsok.
  exact (stream_eventually_ends_woken sc evs pick Hsok eq_refl eq_refl Hal Hf).
Qed.
Print Assumptions C05_stream_eventually_ends.

(** Non-vacuity: a, b -> c; yield a, b; poll (Pending); drop both; the next poll yields c. *)
Example C05_example :
  let ops := [AddFn (mkFn 0 [] []); AddFn (mkFn 1 [] []); AddFn (mkFn 2 [] []); AddLogic 0 2; AddLogic 1 2] in
  match build (builder_run ops) with
  | BOk G _ _ =>
    let sc := mk_scfg G false SNonInt false true in
    snd (sstep sc (srun sc [SNext; SNext]) SNext) = WPending /\
    snd (sstep sc (srun sc [SNext; SNext; SNext; SDrop 1; SDrop 0]) SNext) = WItem 2
  | _ => False
  end.
Proof. vm_compute. split; reflexivity. Qed.
