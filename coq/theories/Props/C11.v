(** C11 — build() is total, keeps the user's graph, and orders every conflicting pair. *)
From FG Require Import Dag Builder DagFacts EdgeFacts RankFacts BuilderFacts TopoFacts AugFacts BuildFacts.

(** For every builder call sequence [ops]: `build()` returns (no `.expect` fires, no fuel runs
    out), the built graph has exactly the builder's functions in `add_fn` order, its raw edge list
    is the builder's accepted edges (order and kinds unchanged) followed by edges [D] that are all
    of kind Data and join conflicting functions, it is well-formed (ids in range, acyclic, one edge
    per ordered pair), and any two distinct conflicting functions are joined by a directed path. *)
Theorem C11_build_total : forall ops,
  let B := builder_run ops in
  exists G pops queries, build B = BOk G pops queries /\
    fg_nodes G = nodes B /\
    (exists D, fg_edges G = edges B ++ D /\
       Forall (fun e => ekind e = Data /\ conflicting B (esrc e) (edst e)) D) /\
    wfg (ncount B) (fg_edges G) /\
    (forall i j, i < ncount B -> j < ncount B -> i <> j -> conflicting B i j ->
       Path (fg_edges G) i j \/ Path (fg_edges G) j i).
Proof.
  intros ops B. destruct (build_total_spec B (builder_wf ops)) as [G [pops [queries [Hb Hok]]]].
  exists G, pops, queries. split; [exact Hb|]. split; [apply (bo_nodes _ _ _ _ Hok)|].
  split; [apply (bo_edges _ _ _ _ Hok)|]. split; [apply (bo_wf _ _ _ _ Hok)|].
  intros i j Hi Hj Hne Hc.
  destruct (lexlt_total (fg_ranks G) i j Hne) as [Hlt|Hlt].
  - left. apply (bo_conn _ _ _ _ Hok); assumption.
  - right. apply (bo_conn _ _ _ _ Hok); try assumption. unfold conflicting in *. rewrite conflict_sym. exact Hc.
Qed.
Print Assumptions C11_build_total.

(** `add_fn` returns the index at which the function is stored. *)
Theorem C11_add_fn_id : forall g f,
  apply_op g (AddFn f) = (mkDag (nodes g ++ [f]) (edges g), RId (ncount g)) /\
  nth (ncount g) (nodes g ++ [f]) dummy_fn = f.
Proof.
  intros g f. split; [reflexivity|]. unfold ncount. rewrite app_nth2 by lia. rewrite Nat.sub_diag. reflexivity.
Qed.
Print Assumptions C11_add_fn_id.

(** Read-only sharing never creates an edge. *)
Theorem C11_readers_do_not_conflict : forall f g, wr f = [] -> wr g = [] -> conflict f g = false.
Proof. exact conflict_needs_writer. Qed.
Print Assumptions C11_readers_do_not_conflict.

(** Non-vacuity: two root writers + a reader below one of them; one Data edge is added. *)
Example C11_example :
  let ops := [AddFn (mkFn 0 [] [0]); AddFn (mkFn 1 [] [0]); AddFn (mkFn 2 [0] []); AddLogic 0 2] in
  match build (builder_run ops) with
  | BOk G _ _ => fg_edges G = [(0, 2, Logic); (1, 2, Data); (0, 1, Data)]
  | _ => False
  end.
Proof. vm_compute. reflexivity. Qed.
