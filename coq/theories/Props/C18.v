(** C18 — build() does polynomial work. *)
From FG Require Import Dag Builder DagFacts EdgeFacts RankFacts BuilderFacts.

(** Cost model: the number of `pop_front`s of the rank relaxation (each costs one walk over the
    children of a node).  For every builder call sequence it is at most n*n — a bound in the
    number of functions, whatever the number of root-to-node paths. *)
Theorem C18_rank_pops_bound : forall ops,
  let B := builder_run ops in
  exists rk pops, rank_calc (ncount B) (edges B) = (rk, pops, false) /\ pops <= ncount B * ncount B.
Proof.
  intros ops B.
  destruct (rank_calc_correct_and_bounded (ncount B) (edges B) (builder_wf ops)) as [rk [pops [H1 [_ [_ H4]]]]].
  exists rk, pops. split; assumption.
Qed.
Print Assumptions C18_rank_pops_bound.

(** The augmenter makes exactly n(n-1)/2 path queries (each a BFS bounded by n+e), and the whole
    `build()` returns with both counters bounded by n*n. *)
From FG Require Import TopoFacts AugFacts.
Theorem C18_build_work_bound : forall ops,
  let B := builder_run ops in
  exists G pops queries, build B = BOk G pops queries /\
    pops <= ncount B * ncount B /\ 2 * queries = ncount B * (ncount B - 1).
Proof.
  intros ops B. destruct (build_total_spec B (builder_wf ops)) as [G [pops [queries [Hb Hok]]]].
  exists G, pops, queries. split; [exact Hb|]. split; [apply (bo_pops _ _ _ _ Hok) | apply (bo_queries _ _ _ _ Hok)].
Qed.
Print Assumptions C18_build_work_bound.

(** Non-vacuity / regression witness: on the layered 2 x 8 graph the repaired relaxation pops 16
    times; the algorithm as it stood before the repair (child re-queued unconditionally) pops 510
    times, more than n*n = 256 (it counts root-to-node paths). *)
Definition layered2 (layers : nat) : list edge :=
  flat_map (fun l => [(2*l, 2*l+2, Logic); (2*l, 2*l+3, Logic); (2*l+1, 2*l+2, Logic); (2*l+1, 2*l+3, Logic)]) (seq 0 (layers - 1)).
Example C18_example_repaired : snd (fst (rank_calc 16 (layered2 8))) = 16.
Proof. vm_compute. reflexivity. Qed.
Example C18_refuted_push_always :
  exists n es, wfg n es /\ let '(_, pops, oof) := rank_calc_gen true 2000 n es in oof = false /\ n * n < pops.
Proof.
  exists 16, (layered2 8). split.
  - pose proof (builder_wf (map (fun i => AddFn (mkFn i [] [])) (seq 0 16) ++ map (fun e => AddLogic (esrc e) (edst e)) (layered2 8))) as H.
    vm_compute in H. exact H.
  - vm_compute. split; [reflexivity | lia].
Qed.
