(** C18 — build() does polynomial work. *)
From FG Require Import Dag Builder DagFacts EdgeFacts RankFacts BuilderFacts.

(** Cost model: the number of `pop_front`s of the rank relaxation (each costs one walk over the
    children of a node).  For every builder call sequence it is at most n*n — a bound in the
    number of functions, whatever the number of root-to-node paths. *)
Theorem C18_rank_pops_bound : forall ops,
  let B := builder_run ops in
  exists rk pops, rank_calc (ncount B) (edges B) = (rk, pops, false) /\ pops <= ncount B * ncount B.
Proof.
  intros ops B.
  destruct (rank_calc_correct_and_bounded (ncount B) (edges B) (builder_wf ops)) as [rk [pops [H1 [_ [_ H4]]]]].
  exists rk, pops. split; assumption.
Qed.
Print Assumptions C18_rank_pops_bound.

(** The augmenter makes exactly n(n-1)/2 path queries (each a BFS bounded by n+e), and the whole
    `build()` returns with both counters bounded by n*n. *)
From FG Require Import TopoFacts AugFacts.
Theorem C18_build_work_bound : forall ops,
  let B := builder_run ops in
  exists G pops queries, build B = BOk G pops queries /\
    pops <= ncount B * ncount B /\ 2 * queries = ncount B * (ncount B - 1).
Proof.
  intros ops B. destruct (build_total_spec B (builder_wf ops)) as [G [pops [queries [Hb Hok]]]].
  exists G, pops, queries. split; [exact Hb|]. split; [apply (bo_pops _ _ _ _ Hok) | apply (bo_queries _ _ _ _ Hok)].
Qed.
Print Assumptions C18_build_work_bound.

(** Cost of each of those path queries (`has_path_connecting`, modelled by [Dag.bfs], which keeps a
    visited set): on any well-formed edge list over the n functions -- in particular every
    intermediate edge list of the augmenter -- one query expands at most n nodes and walks at most
    [length es] adjacency entries, however many paths the graph has.  [bfs_expansions] / [bfs_scans]
    (QueryCost.v) are [Dag.bfs] with the two counters added.  With the n(n-1)/2 queries above, build()
    performs at most n^2 (n-1)/2 expansions in its path queries. *)
From FG Require Import QueryCost.
Theorem C18_path_query_cost_bound : forall n es a,
  wf_edges n es -> a < n ->
  bfs_expansions (S n) es [a] [a] <= n /\ bfs_scans (S n) es [a] [a] <= length es.
Proof. exact query_cost_bound. Qed.
Print Assumptions C18_path_query_cost_bound.

(** Instance: the queries build() makes on the graph assembled by any builder call sequence. *)
Theorem C18_build_query_cost : forall ops a,
  let B := builder_run ops in
  a < ncount B ->
  bfs_expansions (S (ncount B)) (edges B) [a] [a] <= ncount B /\ bfs_scans (S (ncount B)) (edges B) [a] [a] <= length (edges B).
Proof.
  intros ops a B Ha. apply query_cost_bound; [|exact Ha].
  destruct (builder_wf ops) as [Hwf _]. exact Hwf.
Qed.
Print Assumptions C18_build_query_cost.

Definition layered2_for_query (layers : nat) : list edge :=
  flat_map (fun l => [(2*l, 2*l+2, Logic); (2*l, 2*l+3, Logic); (2*l+1, 2*l+2, Logic); (2*l+1, 2*l+3, Logic)]) (seq 0 (layers - 1)).
(** Non-vacuity: on the layered 2 x 8 graph (256 root-to-sink paths) a query from a root expands
    15 nodes and walks 26 adjacency entries. *)
Example C18_query_example :
  bfs_expansions 17 (layered2_for_query 8) [0] [0] = 15 /\ bfs_scans 17 (layered2_for_query 8) [0] [0] = 26.
Proof. vm_compute. split; reflexivity. Qed.

(** Non-vacuity / regression witness: on the layered 2 x 8 graph the repaired relaxation pops 16
    times; the algorithm as it stood before the repair (child re-queued unconditionally) pops 510
    times, more than n*n = 256 (it counts root-to-node paths). *)
Definition layered2 (layers : nat) : list edge :=
  flat_map (fun l => [(2*l, 2*l+2, Logic); (2*l, 2*l+3, Logic); (2*l+1, 2*l+2, Logic); (2*l+1, 2*l+3, Logic)]) (seq 0 (layers - 1)).
Example C18_example_repaired : snd (fst (rank_calc 16 (layered2 8))) = 16.
Proof. vm_compute. reflexivity. Qed.
Example C18_refuted_push_always :
  exists n es, wfg n es /\ let '(_, pops, oof) := rank_calc_gen true 2000 n es in oof = false /\ n * n < pops.
Proof.
  exists 16, (layered2 8). split.
  - pose proof (builder_wf (map (fun i => AddFn (mkFn i [] [])) (seq 0 16) ++ map (fun e => AddLogic (esrc e) (edst e)) (layered2 8))) as H.
    vm_compute in H. exact H.
  - vm_compute. split; [reflexivity | lia].
Qed.
