(** C18 — build() does polynomial work. *)
From FG Require Import Dag Builder DagFacts EdgeFacts RankFacts BuilderFacts.

(** Cost model: the number of `pop_front`s of the rank relaxation (each costs one walk over the
    children of a node).  For every builder call sequence it is at most n*n — a bound in the
    number of functions, whatever the number of root-to-node paths. *)
Theorem C18_rank_pops_bound : forall ops,
  let B := builder_run ops in
  exists rk pops, rank_calc (ncount B) (edges B) = (rk, pops, false) /\ pops <= ncount B * ncount B.
Proof.
  intros ops B.
  destruct (rank_calc_correct_and_bounded (ncount B) (edges B) (builder_wf ops)) as [rk [pops [H1 [_ [_ H4]]]]].
  exists rk, pops. split; assumption.
Qed.
Print Assumptions C18_rank_pops_bound.
