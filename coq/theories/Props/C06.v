(** C06 — no function waits for anything but its predecessors and conflicting functions. *)
From FG Require Import Dag Builder Sched DagFacts EdgeFacts RankFacts BuilderFacts TopoFacts AugFacts BuildFacts
     SchedInv SchedInv2 SchedInv3 SafetyFacts CfgFacts SI_Queuer SI_Step SI2_Step SI3_Run LiveRun SafetyInv OutcomeFacts.
From FG Require Import Props.C04.

(** With no concurrency limit, no interruption delivered and no failure: whenever a concurrent call
    is idle (pending, no wake-up outstanding), every function whose predecessors in the built graph
    (in the order walked) have all returned has already been started.  (Streams: the corresponding
    statement is [C05_pending_justified].) *)
Theorem C06_no_idle_ready : forall ops G p q rev a mt ctl st incl imm evs v,
  build (builder_run ops) = BOk G p q -> is_seq a = false ->
  let cf := mk_cfg G rev a mt ctl 0 st incl imm true in
  let s := run cf evs in
  result s = None -> woken s = false -> w_ian (w s) = false -> failed (trace s) = [] ->
  v < ncount (builder_run ops) ->
  (forall u, Edge (c_es cf) u v -> In u (ends (trace s))) ->
  In v (starts (trace s)).
Proof.
  intros ops G p q rev a mt ctl st incl imm evs v Hb Hseq cf s Hres Hw Hi Hf Hv Hpred.
  destruct (run_all_invs ops G p q rev a mt ctl 0 st incl imm evs Hb) as (Hc & H1 & H2 & H3 & Hl).
  pose proof (build_ok_intro ops G p q Hb) as Hok.
  assert (Hn : c_n cf = ncount (builder_run ops)).
  { unfold cf, mk_cfg. simpl. unfold fg_n. rewrite (bo_nodes _ _ _ _ Hok). reflexivity. }
  apply (no_idle_ready_state cf s Hc H1 H2 H3 Hl Hres Hw); try assumption.
  - unfold eff_limit, cf. simpl. rewrite Hseq. reflexivity.
  - rewrite Hn. exact Hv.
Qed.
Print Assumptions C06_no_idle_ready.

(** Every edge of the built graph that the user did not add is a Data edge joining two functions
    with conflicting data access; and two functions that only read never conflict, so read-only
    sharing adds no edge. *)
Theorem C06_added_edges_are_conflicts : forall ops G p q,
  build (builder_run ops) = BOk G p q ->
  exists D, fg_edges G = edges (builder_run ops) ++ D /\
    Forall (fun e => ekind e = Data /\ conflicting (builder_run ops) (esrc e) (edst e)) D.
Proof. intros ops G p q Hb. apply (bo_edges _ _ _ _ (build_ok_intro ops G p q Hb)). Qed.
Print Assumptions C06_added_edges_are_conflicts.

Theorem C06_readers_run_together : forall f g, wr f = [] -> wr g = [] -> conflict f g = false.
Proof. exact conflict_needs_writer. Qed.
Print Assumptions C06_readers_run_together.

(** Non-vacuity: three readers of one type and an independent writer of another: no edge at all,
    all four start in the first poll. *)
Example C06_example :
  let ops := [AddFn (mkFn 0 [0] []); AddFn (mkFn 1 [0] []); AddFn (mkFn 2 [0] []); AddFn (mkFn 3 [] [1])] in
  match build (builder_run ops) with
  | BOk G _ _ =>
    fg_edges G = [] /\
    starts (trace (run (mk_cfg G false AForEach false false 0 SNonInt true [] true) [ESettle])) = [3; 2; 1; 0]
  | _ => False
  end.
Proof. vm_compute. split; reflexivity. Qed.
