(** C07 — a failure stops its dependents, is reported once, and in-flight work finishes. *)
From FG Require Import Dag Builder Sched DagFacts EdgeFacts RankFacts BuilderFacts TopoFacts AugFacts BuildFacts
     SchedInv SchedInv2 SafetyFacts CfgFacts StreamInv SI_Queuer SI_Step SI2_Step SI_Stream SafetyInv StreamFacts OutcomeFacts.
From Coq Require Import Permutation.
From FG Require Import Props.C09.

(** try_for_each_concurrent* / control variants / try_fold_async*: no function ordered after a
    failed one by a dependency or data-conflict edge (a path of the built graph, in the order
    walked) is ever started. *)
Theorem C07_dependents_never_start : forall ops G p q rev a mt ctl lim st incl imm er evs f x,
  build (builder_run ops) = BOk G p q -> is_try a = true ->
  let cf := mk_cfg G rev a mt ctl lim st incl imm er in
  In f (failed (trace (run cf evs))) ->
  (if rev then Path (fg_edges G) x f else Path (fg_edges G) f x) -> f <> x ->
  ~ In x (starts (trace (run cf evs))).
Proof.
  intros ops G p q rev a mt ctl lim st incl imm er evs f x Hb Ht cf Hf Hp Hne.
  pose proof (build_ok_intro ops G p q Hb) as Hok.
  pose proof (inv_run cf evs (cfg_ok_mk _ _ _ _ rev a mt ctl lim st incl imm er Hok)) as Hinv.
  apply (failed_blocks_dependents cf _ f x Hinv Ht Hf); [|exact Hne].
  unfold cf. rewrite (mk_cfg_es _ _ _ _ rev a mt ctl lim st incl imm er Hok). destruct rev; [apply (proj2 (Path_flip _ _ _))|]; exact Hp.
Qed.
Print Assumptions C07_dependents_never_start.

(** When try_for_each_concurrent* (or a control variant) has returned: the errors it carries are
    exactly the functions that failed - none lost, none duplicated -, it returns Err/Break iff some
    function failed, and every function it started has completed. *)
Theorem C07_errors_exact : forall ops G p q rev mt ctl lim st incl imm evs o,
  build (builder_run ops) = BOk G p q ->
  let cf := mk_cfg G rev ATryForEach mt ctl lim st incl imm true in
  let s := run cf evs in
  result s = Some o ->
  Permutation (o_errs o) (failed (trace s)) /\
  (failed (trace s) <> [] -> o_kind o = (if ctl then KBreak else KErr)) /\
  (failed (trace s) = [] -> o_kind o <> KErr) /\
  (forall x, In x (starts (trace s)) -> In x (ends (trace s))).
Proof.
  intros ops G p q rev mt ctl lim st incl imm evs o Hb cf s Hres.
  destruct (run_invs ops G p q rev ATryForEach mt ctl lim st incl imm evs Hb) as (H1 & H2 & Hn). fold cf in H1, H2. fold s in H1, H2.
  assert (Ha : c_api cf = ATryForEach) by reflexivity.
  assert (Hc : c_ctl cf = ctl) by reflexivity.
  clearbody s. clearbody cf.
  destruct (ret_flags cf s o H2 Hres) as (_ & _ & Ho).
  assert (Hd : s_err s = None \/ c_api cf <> ATryFold) by (right; rewrite Ha; discriminate).
  destruct (make_result_fields cf s Hd) as (F1 & F2 & F3 & F4 & F5).
  assert (Ht : is_tfe (c_api cf) = true) by (rewrite Ha; reflexivity).
  pose proof (ret_errs_exact cf s o H1 H2 Hres Ht) as Hperm.
  rewrite Ha in F4, F5. rewrite Hc in F5.
  subst o. rewrite F4, F5.
  split; [exact Hperm|]. split; [|split].
  - intros Hne. destruct (errs s) as [|e l]; [apply Permutation_nil in Hperm; congruence|]. simpl. destruct ctl; reflexivity.
  - intros He. rewrite He in Hperm. apply Permutation_sym, Permutation_nil in Hperm. rewrite Hperm. simpl.
    destruct ctl; [destruct (s_rem s =? 0)|]; discriminate.
  - apply (ret_started_ended cf s _ H1 H2 Hres).
Qed.
Print Assumptions C07_errors_exact.

(** The same when a user future sends the interrupt signal itself, inside a poll of the call
    ([SelfSignal.run_sig]; known finding F4 concerns the C08 bound only). *)
Theorem C07_errors_exact_when_a_user_future_sends_the_signal : forall ops G p q rev mt ctl lim st incl imm sg evs o,
  build (builder_run ops) = BOk G p q ->
  let cf := mk_cfg G rev ATryForEach mt ctl lim st incl imm true in
  let s := fst (SelfSignal.run_sig sg cf evs) in
  result s = Some o ->
  Permutation (o_errs o) (failed (trace s)) /\
  (failed (trace s) <> [] -> o_kind o = (if ctl then KBreak else KErr)) /\
  (failed (trace s) = [] -> o_kind o <> KErr) /\
  (forall x, In x (starts (trace s)) -> In x (ends (trace s))).
Proof.
  intros ops G p q rev mt ctl lim st incl imm sg evs o Hb cf s Hres.
  destruct (run_sig_invs ops G p q rev ATryForEach mt ctl lim st incl imm sg evs Hb) as (H1 & H2 & Hn). fold cf in H1, H2. fold s in H1, H2.
  assert (Ha : c_api cf = ATryForEach) by reflexivity.
  assert (Hc : c_ctl cf = ctl) by reflexivity.
  clearbody s. clearbody cf.
  destruct (ret_flags cf s o H2 Hres) as (_ & _ & Ho).
  assert (Hd : s_err s = None \/ c_api cf <> ATryFold) by (right; rewrite Ha; discriminate).
  destruct (make_result_fields cf s Hd) as (F1 & F2 & F3 & F4 & F5).
  assert (Ht : is_tfe (c_api cf) = true) by (rewrite Ha; reflexivity).
  pose proof (ret_errs_exact cf s o H1 H2 Hres Ht) as Hperm.
  rewrite Ha in F4, F5. rewrite Hc in F5.
  subst o. rewrite F4, F5.
  split; [exact Hperm|]. split; [|split].
  - intros Hne. destruct (errs s) as [|e l]; [apply Permutation_nil in Hperm; congruence|]. simpl. destruct ctl; reflexivity.
  - intros He. rewrite He in Hperm. apply Permutation_sym, Permutation_nil in Hperm. rewrite Hperm. simpl.
    destruct ctl; [destruct (s_rem s =? 0)|]; discriminate.
  - apply (ret_started_ended cf s _ H1 H2 Hres).
Qed.
Print Assumptions C07_errors_exact_when_a_user_future_sends_the_signal.


(** try_fold_async*: the error returned is the first (and only) failure, it is the last event of
    the run - no function is invoked after it. *)
Theorem C07_try_fold_first_error : forall ops G p q rev mt ctl lim st incl imm evs i,
  build (builder_run ops) = BOk G p q ->
  let cf := mk_cfg G rev ATryFold mt ctl lim st incl imm true in
  s_err (run cf evs) = Some i ->
  exists T1, trace (run cf evs) = T1 ++ [End i false] /\ failed T1 = [].
Proof.
  intros ops G p q rev mt ctl lim st incl imm evs i Hb cf Herr.
  destruct (run_invs ops G p q rev ATryFold mt ctl lim st incl imm evs Hb) as (H1 & H2 & Hn).
  destruct (x_serr_some _ _ H2 i Herr) as (_ & _ & T1 & Ht & Hf). exists T1. split; assumption.
Qed.
Print Assumptions C07_try_fold_first_error.

Example C07_example :
  let ops := [AddFn (mkFn 0 [] []); AddFn (mkFn 1 [] []); AddFn (mkFn 2 [] []); AddLogic 0 1] in
  match build (builder_run ops) with
  | BOk G _ _ =>
    let s := run (mk_cfg G false ATryForEach false false 0 SNonInt true [] true) [ESettle; ECmp 0 false; ESettle; ECmp 2 true; ESettle] in
    trace s = [Start 2; Start 0; End 0 false; End 2 true] /\ errs s = [0]
  | _ => False
  end.
Proof. vm_compute. split; reflexivity. Qed.
