(** C07 — a failure stops its dependents (proved); exact error reporting: see Inv2. *)
From FG Require Import Dag Builder Sched DagFacts EdgeFacts RankFacts BuilderFacts TopoFacts AugFacts BuildFacts
     SchedInv SafetyFacts CfgFacts StreamInv SI_Queuer SI_Step SI_Stream SafetyInv StreamFacts.

(** try_for_each_concurrent* / control variants / try_fold_async*: no function ordered after a
    failed one by a dependency or data-conflict edge (a path of the built graph, in the order
    walked) is ever started. *)
Theorem C07_dependents_never_start : forall ops G p q rev a mt ctl lim st incl imm er evs f x,
  build (builder_run ops) = BOk G p q -> is_try a = true ->
  let cf := mk_cfg G rev a mt ctl lim st incl imm er in
  In f (failed (trace (run cf evs))) ->
  (if rev then Path (fg_edges G) x f else Path (fg_edges G) f x) -> f <> x ->
  ~ In x (starts (trace (run cf evs))).
Proof.
  intros ops G p q rev a mt ctl lim st incl imm er evs f x Hb Ht cf Hf Hp Hne.
  pose proof (build_ok_intro ops G p q Hb) as Hok.
  pose proof (inv_run cf evs (cfg_ok_mk _ _ _ _ rev a mt ctl lim st incl imm er Hok)) as Hinv.
  apply (failed_blocks_dependents cf _ f x Hinv Ht Hf); [|exact Hne].
  unfold cf. rewrite (mk_cfg_es _ _ _ _ rev a mt ctl lim st incl imm er Hok). destruct rev; [apply (proj2 (Path_flip _ _ _))|]; exact Hp.
Qed.
Print Assumptions C07_dependents_never_start.

Example C07_example :
  let ops := [AddFn (mkFn 0 [] []); AddFn (mkFn 1 [] []); AddFn (mkFn 2 [] []); AddLogic 0 1] in
  match build (builder_run ops) with
  | BOk G _ _ =>
    let s := run (mk_cfg G false ATryForEach false false 0 SNonInt true [] true) [ESettle; ECmp 0 false; ESettle; ECmp 2 true; ESettle] in
    trace s = [Start 2; Start 0; End 0 false; End 2 true] /\ errs s = [0]
  | _ => False
  end.
Proof. vm_compute. split; reflexivity. Qed.
