(** C17 — GraphInfo mirrors the built graph and survives serialisation.
    Partial: the YAML text layer (serde + serde_yaml_ng) is not modelled; the round trip is proved
    for petgraph's serialisation structure (node list + edge triples in index order). *)
From FG Require Import Dag Builder DagFacts EdgeFacts RankFacts BuilderFacts TopoFacts AugFacts BuildFacts.
From Coq Require Import Permutation.

Theorem C17_from_graph : forall ops G pops queries f,
  build (builder_run ops) = BOk G pops queries ->
  gi_from_graph G f = Some (mkGI (map f (fg_nodes G)) (fg_edges G)).
Proof.
  intros ops G pops queries f Hb.
  destruct (build_total_spec _ (builder_wf ops)) as [G' [p' [q' [Hb' Hok]]]].
  rewrite Hb in Hb'. inversion Hb'; subst G' p' q'.
  apply (gi_from_graph_spec G (ncount (builder_run ops))).
  - unfold fg_n. rewrite (bo_nodes _ _ _ _ Hok). reflexivity.
  - apply (bo_wf _ _ _ _ Hok).
Qed.
Print Assumptions C17_from_graph.

Theorem C17_roundtrip_partial : forall i, gi_de (gi_ser i) = i /\ gi_eqb (gi_de (gi_ser i)) i = true.
Proof. intros i. rewrite gi_roundtrip. split; [reflexivity | apply gi_eqb_iff; reflexivity]. Qed.
Print Assumptions C17_roundtrip_partial.

Theorem C17_eq_iff : forall a b, gi_eqb a b = true <-> a = b.
Proof. exact gi_eqb_iff. Qed.
Print Assumptions C17_eq_iff.

Theorem C17_iter_topological : forall ops G pops queries f i,
  build (builder_run ops) = BOk G pops queries -> gi_from_graph G f = Some i ->
  let n := ncount (builder_run ops) in
  Permutation (gi_iter i) (seq 0 n) /\ (forall a b, Edge (gi_edges i) a b -> Before (gi_iter i) a b) /\
  Permutation (gi_iter_rev i) (seq 0 n) /\ (forall a b, Edge (gi_edges i) a b -> Before (gi_iter_rev i) b a).
Proof.
  intros ops G pops queries f i Hb Hgi n.
  rewrite (C17_from_graph ops G pops queries f Hb) in Hgi. inversion Hgi; subst i.
  destruct (build_total_spec _ (builder_wf ops)) as [G' [p' [q' [Hb' Hok]]]].
  rewrite Hb in Hb'. inversion Hb'; subst G' p' q'.
  pose proof (bo_wf _ _ _ _ Hok) as Hw. fold n in Hw.
  unfold gi_iter, gi_iter_rev. simpl. rewrite map_length, (bo_nodes _ _ _ _ Hok). fold (ncount (builder_run ops)). fold n.
  split; [apply topo_perm; exact Hw|]. split; [apply topo_respects; exact Hw|].
  split; [apply topo_flip_perm; exact Hw | apply topo_flip_respects; exact Hw].
Qed.
Print Assumptions C17_iter_topological.

Example C17_example :
  let ops := [AddFn (mkFn 7 [] [0]); AddFn (mkFn 8 [] [0]); AddFn (mkFn 9 [0] []); AddLogic 0 2] in
  match build (builder_run ops) with
  | BOk G _ _ => gi_from_graph G fid = Some (mkGI [7; 8; 9] [(0, 2, Logic); (1, 2, Data); (0, 1, Data)])
  | _ => False
  end.
Proof. vm_compute. reflexivity. Qed.
