(** C17 — GraphInfo mirrors the built graph and survives serialisation.
    The round trip is proved twice: for petgraph's serialisation structure (node list + edge triples in index
    order, [C17_roundtrip_partial]) and for the YAML text line by line ([Yaml.v]: the writer's lines are compared
    byte for byte with serde_yaml_ng's output on every case; `C17_yaml_*` below).  Still partial: the reader of the
    implementation (serde_yaml_ng's scanner) is tied to [gi_parse] only through the round trips the harness runs. *)
From FG Require Import Dag Builder DagFacts EdgeFacts RankFacts BuilderFacts TopoFacts AugFacts BuildFacts Yaml YamlFacts.
From Coq Require Import Permutation.

Theorem C17_from_graph : forall ops G pops queries f,
  build (builder_run ops) = BOk G pops queries ->
  gi_from_graph G f = Some (mkGI (map f (fg_nodes G)) (fg_edges G)).
Proof.
  intros ops G pops queries f Hb.
  destruct (build_total_spec _ (builder_wf ops)) as [G' [p' [q' [Hb' Hok]]]].
  rewrite Hb in Hb'. inversion Hb'; subst G' p' q'.
  apply (gi_from_graph_spec G (ncount (builder_run ops))).
  - unfold fg_n. rewrite (bo_nodes _ _ _ _ Hok). reflexivity.
  - apply (bo_wf _ _ _ _ Hok).
Qed.
Print Assumptions C17_from_graph.

Theorem C17_roundtrip_partial : forall i, gi_de (gi_ser i) = i /\ gi_eqb (gi_de (gi_ser i)) i = true.
Proof. intros i. rewrite gi_roundtrip. split; [reflexivity | apply gi_eqb_iff; reflexivity]. Qed.
Print Assumptions C17_roundtrip_partial.

Theorem C17_eq_iff : forall a b, gi_eqb a b = true <-> a = b.
Proof. exact gi_eqb_iff. Qed.
Print Assumptions C17_eq_iff.

Theorem C17_iter_topological : forall ops G pops queries f i,
  build (builder_run ops) = BOk G pops queries -> gi_from_graph G f = Some i ->
  let n := ncount (builder_run ops) in
  Permutation (gi_iter i) (seq 0 n) /\ (forall a b, Edge (gi_edges i) a b -> Before (gi_iter i) a b) /\
  Permutation (gi_iter_rev i) (seq 0 n) /\ (forall a b, Edge (gi_edges i) a b -> Before (gi_iter_rev i) b a).
Proof.
  intros ops G pops queries f i Hb Hgi n.
  rewrite (C17_from_graph ops G pops queries f Hb) in Hgi. inversion Hgi; subst i.
  destruct (build_total_spec _ (builder_wf ops)) as [G' [p' [q' [Hb' Hok]]]].
  rewrite Hb in Hb'. inversion Hb'; subst G' p' q'.
  pose proof (bo_wf _ _ _ _ Hok) as Hw. fold n in Hw.
  unfold gi_iter, gi_iter_rev. simpl. rewrite map_length, (bo_nodes _ _ _ _ Hok). fold (ncount (builder_run ops)). fold n.
  split; [apply topo_perm; exact Hw|]. split; [apply topo_respects; exact Hw|].
  split; [apply topo_flip_perm; exact Hw | apply topo_flip_respects; exact Hw].
Qed.
Print Assumptions C17_iter_topological.

Example C17_example :
  let ops := [AddFn (mkFn 7 [] [0]); AddFn (mkFn 8 [] [0]); AddFn (mkFn 9 [0] []); AddLogic 0 2] in
  match build (builder_run ops) with
  | BOk G _ _ => gi_from_graph G fid = Some (mkGI [7; 8; 9] [(0, 2, Logic); (1, 2, Data); (0, 1, Data)])
  | _ => False
  end.
Proof. vm_compute. reflexivity. Qed.

(** The YAML text layer. *)
Theorem C17_yaml_roundtrip : forall ops G pops queries f i,
  build (builder_run ops) = BOk G pops queries -> gi_from_graph G f = Some i ->
  gi_parse (gi_yaml i) = Some i /\ gi_eqb i i = true.
Proof.
  intros ops G pops queries f i Hb Hgi.
  rewrite (C17_from_graph ops G pops queries f Hb) in Hgi. inversion Hgi; subst i.
  destruct (build_total_spec _ (builder_wf ops)) as [G' [p' [q' [Hb' Hok]]]].
  rewrite Hb in Hb'. inversion Hb'; subst G' p' q'.
  split; [|apply gi_eqb_iff; reflexivity].
  apply yaml_roundtrip, wf_in_range. rewrite map_length.
  pose proof (bo_wf _ _ _ _ Hok) as [Hw _]. rewrite (bo_nodes _ _ _ _ Hok). exact Hw.
Qed.
Print Assumptions C17_yaml_roundtrip.

(** Any GraphInfo value (`GraphInfo::new` included): read back iff its edges connect nodes. *)
Theorem C17_yaml_roundtrip_any_value : forall i,
  (gi_in_range i = true -> gi_parse (gi_yaml i) = Some i) /\
  (gi_in_range i = false -> gi_parse (gi_yaml i) = None).
Proof. intros i. split; [apply yaml_roundtrip | apply yaml_refuses_out_of_range]. Qed.
Print Assumptions C17_yaml_roundtrip_any_value.

Theorem C17_yaml_reader_accepts_only_written_text : forall l i,
  gi_parse l = Some i -> l = gi_yaml i /\ gi_in_range i = true.
Proof. exact yaml_parse_sound. Qed.
Print Assumptions C17_yaml_reader_accepts_only_written_text.

Theorem C17_yaml_text_determines_value : forall a b, gi_yaml a = gi_yaml b -> a = b.
Proof. exact yaml_injective. Qed.
Print Assumptions C17_yaml_text_determines_value.

(** Whatever the reader returns for a written text is the value that was written (no hypothesis on the value). *)
Theorem C17_yaml_read_back_is_the_value : forall i j,
  gi_parse (gi_yaml i) = Some j -> j = i /\ gi_iter j = gi_iter i /\ gi_iter_rev j = gi_iter_rev i.
Proof.
  intros i j H. apply yaml_parse_sound in H. destruct H as [H _].
  apply yaml_injective in H. subst j. repeat split.
Qed.
Print Assumptions C17_yaml_read_back_is_the_value.

Example C17_yaml_example :
  gi_yaml (mkGI [7; 8; 9] [(0, 2, Logic); (1, 2, Contains); (0, 1, Data)]) =
  [YGraph; YNodes false; YNode 7; YNode 8; YNode 9; YHoles; YProp; YEdges false;
   YSrc 0; YDst 2; YKind Logic; YSrc 1; YDst 2; YKind Contains; YSrc 0; YDst 1; YKind Data]
  /\ gi_yaml (mkGI [] []) = [YGraph; YNodes true; YHoles; YProp; YEdges true]
  /\ gi_parse (gi_yaml (mkGI [7] [(0, 1, Logic)])) = None.
Proof. vm_compute. repeat split. Qed.
