(** C14 — sequential iteration visits each function once, in dependency order. *)
From FG Require Import Dag Builder DagFacts EdgeFacts RankFacts BuilderFacts TopoFacts AugFacts BuildFacts.
From Coq Require Import Permutation.

(** On every built graph: `iter`/`toposort` (over `graph_structure`) and
    `map`/`fold`/`for_each`/`try_*` (over `graph`) visit a permutation of all functions in which
    every edge of the built graph (user and Data) goes forward; `iter_rev` (over
    `graph_structure_rev`) a permutation in which every edge goes backward; `iter_insertion*` is
    insertion order. *)
Theorem C14_orders : forall ops G pops queries,
  let B := builder_run ops in
  build B = BOk G pops queries ->
  let n := ncount B in
  fg_n G = n /\
  Permutation (iter_order G) (seq 0 n) /\ (forall a b, Edge (fg_edges G) a b -> Before (iter_order G) a b) /\
  Permutation (map_order G) (seq 0 n) /\ (forall a b, Edge (fg_edges G) a b -> Before (map_order G) a b) /\
  Permutation (iter_rev_order G) (seq 0 n) /\ (forall a b, Edge (fg_edges G) a b -> Before (iter_rev_order G) b a) /\
  iter_insertion_order G = seq 0 n.
Proof.
  intros ops G pops queries B Hb n.
  destruct (build_total_spec B (builder_wf ops)) as [G' [p' [q' [Hb' Hok]]]].
  rewrite Hb in Hb'. inversion Hb'; subst G' p' q'.
  assert (Hn : fg_n G = n) by (unfold fg_n; rewrite (bo_nodes _ _ _ _ Hok); reflexivity).
  pose proof (bo_wf _ _ _ _ Hok) as Hw. fold n in Hw.
  unfold iter_order, map_order, iter_rev_order, iter_insertion_order.
  rewrite Hn, (bo_struct _ _ _ _ Hok), (bo_struct_rev _ _ _ _ Hok).
  split; [reflexivity|].
  split; [apply topo_perm; exact Hw|]. split; [apply topo_respects; exact Hw|].
  split; [apply topo_perm; exact Hw|]. split; [apply topo_respects; exact Hw|].
  split; [apply topo_flip_perm; exact Hw|]. split; [apply topo_flip_respects; exact Hw | reflexivity].
Qed.
Print Assumptions C14_orders.

(** `try_fold` / `try_for_each`: the calls made are the visiting order up to and including the
    first failing function, whose error is returned; nothing is invoked after it.  Without a
    failing function the whole order is visited and the result is `Ok`. *)
Theorem C14_try_first_error : forall l1 x l2 failing,
  (forall y, In y l1 -> ~ In y failing) -> In x failing ->
  try_visit (l1 ++ x :: l2) failing = (l1 ++ [x], Some x).
Proof. exact try_visit_first. Qed.
Print Assumptions C14_try_first_error.

Theorem C14_try_no_error : forall order failing,
  (forall x, In x order -> ~ In x failing) -> try_visit order failing = (order, None).
Proof. exact try_visit_none. Qed.
Print Assumptions C14_try_no_error.

Example C14_example :
  let ops := [AddFn (mkFn 0 [] [0]); AddFn (mkFn 1 [] [0]); AddFn (mkFn 2 [0] []); AddLogic 0 2] in
  match build (builder_run ops) with
  | BOk G _ _ => iter_order G = [0; 1; 2] /\ iter_rev_order G = [2; 1; 0] /\ try_visit (map_order G) [1] = ([0; 1], Some 1)
  | _ => False
  end.
Proof. vm_compute. repeat split; reflexivity. Qed.
