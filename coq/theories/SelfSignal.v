(** * SelfSignal.v — the call machine when a user future itself sends the interrupt signal

    Model only.  In [Sched.step] an interrupt signal is an event of its own ([EInt]): it arrives
    between two polls of the call, which is all another task of a single-threaded executor can do.
    A user future, however, runs *inside* a poll of the call; if it sends the signal (a function that
    decides "stop after me"), the signal arrives in the middle of `ForEachConcurrent::poll`, when ids
    may already have been taken from the ready stream whose blocks have not had their first poll.

    [sg] = the function whose user future sends the signal in the poll in which it resolves
    (`None`: nobody, and then every function below is its [Sched] original, see SelfSignalFacts).
    The second component of the threaded pair records the length of the trace at the moment the
    signal was sent. *)
From Coq Require Import List Arith Bool.
From RecordUpdate Require Import RecordSet.
From FG Require Import Dag Builder Sched.
Import ListNotations RecordSetNotations.

Definition sigst := (state * option nat)%type.

Definition send_sig (sg : option nat) (id : nat) (sm : sigst) : sigst :=
  let '(s, mk) := sm in
  match sg with
  | Some j => if j =? id then (s <| ipend := S (ipend s) |>, Some (length (trace s))) else (s, mk)
  | None => (s, mk)
  end.

(** [Sched.resume_block]: the user future is polled (and, being resolved, returns); the signalling
    function sends the signal there; then the rest of the block runs.  The rest of the block
    ([finish_block]) neither reads nor writes the pending-signal counter, so the send is recorded
    after it: [resume_block_sig] is [resume_block] followed by the send. *)
Definition resume_block_sig (sg : option nat) (cf : cfg) (sm : sigst) (m : member) (id : nat) : sigst * bool :=
  let '(s', b) := resume_block cf (fst sm) m id in
  if b then (send_sig sg id (s', snd sm), true) else ((s', snd sm), false).

Definition block_poll_sig (sg : option nat) (cf : cfg) (sm : sigst) (m : member) : sigst * bool :=
  let '(s, mk) := sm in
  match m_st m, m_id m with
  | MNew, None => ((remove_member (if m_int m then take_s_tx s else s) (m_key m), mk), true)
  | MNew, Some id =>
    let s := start_block cf s m id in
    match lookup id (c_imm cf) with
    | Some ok => resume_block_sig sg cf (complete s id ok, mk) m id
    | None => ((s, mk), false)
    end
  | MWait, Some id => resume_block_sig sg cf sm m id
  | MWait, None => (sm, false)
  end.

Fixpoint runq_loop_sig (sg : option nat) (fuel : nat) (cf : cfg) (sm : sigst) : sigst * fres :=
  match fuel with
  | 0 => ((set_panic POof (fst sm), snd sm), FPending)
  | S f =>
    match runq (fst sm) with
    | [] => (sm, if is_nil (members (fst sm)) then FNone else FPending)
    | k :: rest =>
      let sm := (fst sm <| runq := rest |>, snd sm) in
      match find_member (fst sm) k with
      | None => runq_loop_sig sg f cf sm
      | Some m => let '(sm', rdy) := block_poll_sig sg cf sm m in
                  if rdy then (sm', FReady) else runq_loop_sig sg f cf sm'
      end
    end
  end.

Fixpoint conc_loop_sig (sg : option nat) (fuel : nat) (cf : cfg) (sm : sigst) : sigst :=
  match fuel with
  | 0 => (set_panic POof (fst sm), snd sm)
  | S f =>
    let '(s, prog) := stream_step cf (fst sm) in
    let '(sm, fr) := runq_loop_sig sg (length (runq s) + 1) cf (s, snd sm) in
    if s_fin (fst sm) then sm else
    match fr with
    | FReady => conc_loop_sig sg f cf sm
    | FNone => if negb (s_alive (fst sm)) then (sched_finish cf (fst sm), snd sm)
               else if prog then conc_loop_sig sg f cf sm else sm
    | FPending => if prog then conc_loop_sig sg f cf sm else sm
    end
  end.

Definition poll_sig (sg : option nat) (cf : cfg) (sm : sigst) : sigst :=
  let '(s, mk) := sm in
  match result s with
  | Some _ => sm
  | None =>
    let s := s <| woken := false |> in
    let s := if q_fin s then s else q_loop (poll_fuel cf) cf s in
    let '(s, mk) := if s_fin s then (s, mk) else conc_loop_sig sg (poll_fuel cf) cf (s, mk) in
    (if q_fin s && s_fin s then s <| result := Some (make_result cf s) |> else s, mk)
  end.

Fixpoint settle_sig (sg : option nat) (fuel : nat) (cf : cfg) (sm : sigst) : sigst :=
  match fuel with
  | 0 => sm
  | S f => if woken (fst sm) && is_none (result (fst sm)) && is_none (panic (fst sm))
           then settle_sig sg f cf (poll_sig sg cf sm) else sm
  end.

Definition step_sig (sg : option nat) (cf : cfg) (sm : sigst) (e : event) : sigst :=
  match e with
  | EPoll => poll_sig sg cf sm
  | ESettle => settle_sig sg (settle_fuel cf) cf sm
  | _ => (step cf (fst sm) e, snd sm)
  end.

Definition run_sig (sg : option nat) (cf : cfg) (evs : list event) : sigst :=
  fold_left (step_sig sg cf) evs (init cf, None).

(** Functions started after the signal was sent. *)
Definition started_after_mark (sm : sigst) : list nat :=
  match snd sm with
  | Some k => starts (skipn k (trace (fst sm)))
  | None => []
  end.
