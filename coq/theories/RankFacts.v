(** * RankFacts.v — `RankCalc::calc`: the rank of a function is the length of the longest chain of
    user edges ending at it (C13), and the relaxation pops the queue at most [n*n] times (C18). *)

From FG Require Import Dag Builder DagFacts EdgeFacts.
From Coq Require Import Permutation.

(** [Chain es v k]: some chain of [k] edges ends at [v]. *)
Inductive Chain (es : list edge) : nat -> nat -> Prop :=
| Chain_0 v : Chain es v 0
| Chain_S u v k : Chain es u k -> Edge es u v -> Chain es v (S k).

Definition longest_chain (es : list edge) (v k : nat) : Prop :=
  Chain es v k /\ forall k', Chain es v k' -> k' <= k.

Definition rk_at (rk : list nat) (v : nat) : nat := nth v rk 0.

(** ** [set_nth] *)

Lemma set_nth_length i v l : length (set_nth i v l) = length l.
Proof.
  revert i. induction l as [|x l IH]; intros i; destruct i; simpl; try reflexivity.
  rewrite IH. reflexivity.
Qed.

Lemma nth_set_nth i v l j :
  i < length l -> nth j (set_nth i v l) 0 = if j =? i then v else nth j l 0.
Proof.
  revert i j. induction l as [|x l IH]; intros i j Hi; simpl in Hi; [lia|].
  destruct i as [|i]; destruct j as [|j]; simpl; try reflexivity.
  apply IH. lia.
Qed.

(** ** One relaxation round (the `for_each` over the children of the popped node) *)

Lemma relax_step r rk q c :
  rank_relax false r (rk, q) c = if rk_at rk c <? r then (set_nth c r rk, q ++ [c]) else (rk, q).
Proof. reflexivity. Qed.

Lemma relax_fst r cs : forall rk q,
  Forall (fun c => c < length rk) cs ->
  length (fst (fold_left (rank_relax false r) cs (rk, q))) = length rk /\
  forall v, rk_at (fst (fold_left (rank_relax false r) cs (rk, q))) v =
            if mem v cs then Nat.max (rk_at rk v) r else rk_at rk v.
Proof.
  induction cs as [|c cs IH]; intros rk q Hall; cbn [fold_left].
  - split; [reflexivity | intros v; reflexivity].
  - inversion Hall as [|c' cs' Hc Hall']; subst.
    rewrite relax_step.
    destruct (rk_at rk c <? r) eqn:Hlt.
    + apply Nat.ltb_lt in Hlt.
      destruct (IH (set_nth c r rk) (q ++ [c])) as [Hlen Hnth].
      { rewrite set_nth_length. exact Hall'. }
      split; [rewrite Hlen; apply set_nth_length|].
      assert (Hset : forall v, rk_at (set_nth c r rk) v = if v =? c then r else rk_at rk v).
      { intros v. unfold rk_at. apply nth_set_nth. exact Hc. }
      intros v. rewrite Hnth, Hset.
      change (mem v (c :: cs)) with ((v =? c) || mem v cs).
      destruct (v =? c) eqn:Hvc; simpl.
      * apply Nat.eqb_eq in Hvc. subst v. destruct (mem c cs); lia.
      * destruct (mem v cs); reflexivity.
    + apply Nat.ltb_ge in Hlt.
      destruct (IH rk q Hall') as [Hlen Hnth]. split; [exact Hlen|].
      intros v. rewrite Hnth.
      change (mem v (c :: cs)) with ((v =? c) || mem v cs).
      destruct (v =? c) eqn:Hvc; simpl; [|reflexivity].
      apply Nat.eqb_eq in Hvc. subst v. destruct (mem c cs); lia.
Qed.

Lemma relax_snd r cs : forall rk q,
  Forall (fun c => c < length rk) cs -> NoDup cs ->
  snd (fold_left (rank_relax false r) cs (rk, q)) = q ++ filter (fun c => rk_at rk c <? r) cs.
Proof.
  induction cs as [|c cs IH]; intros rk q Hall Hnd; cbn [fold_left].
  - simpl. rewrite app_nil_r. reflexivity.
  - inversion Hall as [|c' cs' Hc Hall']; subst. inversion Hnd as [|c' cs' Hnin Hnd']; subst.
    rewrite relax_step. cbn [filter].
    destruct (rk_at rk c <? r) eqn:Hlt.
    + rewrite IH; [|rewrite set_nth_length; exact Hall'|exact Hnd'].
      rewrite <- app_assoc. simpl. f_equal. f_equal.
      apply filter_ext_in. intros x Hx. unfold rk_at. rewrite (nth_set_nth c r rk x Hc).
      destruct (x =? c) eqn:Hxc; [|reflexivity]. apply Nat.eqb_eq in Hxc. subst. contradiction.
    + apply IH; assumption.
Qed.

(** ** Sums of ranks (the potential that bounds the number of pops) *)

Fixpoint sum_over (f : nat -> nat) (l : list nat) : nat :=
  match l with [] => 0 | x :: l' => f x + sum_over f l' end.

Lemma sum_over_le f g l : (forall x, In x l -> f x <= g x) -> sum_over f l <= sum_over g l.
Proof.
  induction l as [|x l IH]; intros H; simpl; [lia|].
  assert (f x <= g x) by (apply H; left; reflexivity).
  assert (sum_over f l <= sum_over g l) by (apply IH; intros y Hy; apply H; right; exact Hy). lia.
Qed.

Lemma sum_over_ind (f : nat -> nat) (P l : list nat) :
  sum_over (fun v => f v + if mem v P then 1 else 0) l = sum_over f l + length (filter (fun v => mem v P) l).
Proof.
  induction l as [|x l IH]; simpl; [reflexivity|]. rewrite IH. destruct (mem x P); simpl; lia.
Qed.

Lemma filter_mem_length (P l : list nat) :
  NoDup P -> NoDup l -> incl P l -> length (filter (fun v => mem v P) l) = length P.
Proof.
  intros HP Hl Hincl. apply Permutation_length. apply NoDup_Permutation.
  - apply NoDup_filter. exact Hl.
  - exact HP.
  - intros x. rewrite filter_In, mem_spec. split; [tauto|]. intros Hx. split; [apply Hincl; exact Hx | exact Hx].
Qed.

Lemma sum_over_bound f l b : (forall x, In x l -> f x <= b) -> sum_over f l <= length l * b.
Proof.
  induction l as [|x l IH]; intros H; simpl; [lia|].
  assert (f x <= b) by (apply H; left; reflexivity).
  assert (sum_over f l <= length l * b) by (apply IH; intros y Hy; apply H; right; exact Hy). lia.
Qed.

(** ** Children lists have no duplicates when there is one edge per ordered pair *)

Lemma children_NoDup es a : uniq_pairs es -> NoDup (children es a).
Proof.
  intros Hu. unfold children. apply NoDup_rev.
  induction es as [|e es IH]; simpl; [constructor|].
  inversion Hu as [|p ps Hnin Hu']; subst.
  destruct (esrc e =? a) eqn:He; [|apply IH; exact Hu'].
  simpl. constructor; [|apply IH; exact Hu'].
  intros Hin. apply in_map_iff in Hin. destruct Hin as [e' [Hd Hin]].
  apply filter_In in Hin. destruct Hin as [Hin He'].
  apply Nat.eqb_eq in He. apply Nat.eqb_eq in He'.
  apply Hnin. unfold pairs. apply in_map_iff. exists e'. split; [|exact Hin].
  destruct e as [[x y] k]; destruct e' as [[x' y'] k']. unfold esrc, edst in *. simpl in *. subst. reflexivity.
Qed.

(** ** The loop invariant *)

Section Rank.
Variables (n : nat) (es : list edge).
Hypothesis Hw : wfg n es.

Let Hwf : wf_edges n es := proj1 Hw.
Let Hac : acyclic es := proj1 (proj2 Hw).
Let Hu : uniq_pairs es := proj2 (proj2 Hw).

Definition has_parent (u : nat) : Prop := exists p, Edge es p u.

Record rank_inv (q rk : list nat) (pops : nat) : Prop := {
  ri_len : length rk = n;
  ri_q : forall x, In x q -> x < n;
  ri_chain : forall v, v < n -> Chain es v (rk_at rk v);
  ri_height : forall v, v < n -> rk_at rk v <= height n es v;
  ri_edge : forall u v, Edge es u v ->
      In u q \/ rk_at rk u + 1 <= rk_at rk v \/ (rk_at rk u = 0 /\ has_parent u);
  ri_pot : pops + length q <= length (roots n es) + sum_over (rk_at rk) (seq 0 n)
}.

Lemma roots_spec u : In u (roots n es) <-> u < n /\ ~ has_parent u.
Proof.
  unfold roots. rewrite filter_In, in_seq. split.
  - intros [Hlt Hnil]. split; [lia|]. intros [p Hp]. apply parents_spec in Hp.
    destruct (parents es u); [destruct Hp | discriminate].
  - intros [Hlt Hnp]. split; [lia|]. destruct (parents es u) as [|p ps] eqn:Hp; [reflexivity|].
    exfalso. apply Hnp. exists p. apply parents_spec. rewrite Hp. left. reflexivity.
Qed.

Lemma has_parent_dec u : has_parent u \/ ~ has_parent u.
Proof.
  destruct (parents es u) as [|p ps] eqn:Hp.
  - right. intros [x Hx]. apply parents_spec in Hx. rewrite Hp in Hx. destruct Hx.
  - left. exists p. apply parents_spec. rewrite Hp. left. reflexivity.
Qed.

Lemma rk_at_repeat v : rk_at (repeat 0 n) v = 0.
Proof.
  unfold rk_at. destruct (Nat.lt_ge_cases v n) as [Hlt|Hge].
  - apply nth_repeat.
  - apply nth_overflow. rewrite repeat_length. exact Hge.
Qed.

Lemma sum_over_zero l : sum_over (rk_at (repeat 0 n)) l = 0.
Proof. induction l as [|x l IH]; simpl; [reflexivity|]. rewrite rk_at_repeat, IH. reflexivity. Qed.

Lemma rank_inv_init : rank_inv (roots n es) (repeat 0 n) 0.
Proof.
  constructor.
  - apply repeat_length.
  - intros x Hx. apply roots_spec in Hx. tauto.
  - intros v _. rewrite rk_at_repeat. constructor.
  - intros v _. rewrite rk_at_repeat. lia.
  - intros u v He. destruct (has_parent_dec u) as [Hp|Hnp].
    + right. right. split; [apply rk_at_repeat | exact Hp].
    + left. apply roots_spec. split; [|exact Hnp]. apply (Edge_wf _ _ _ _ Hwf He).
  - rewrite sum_over_zero. simpl. lia.
Qed.

Lemma rank_inv_step u q rk pops :
  rank_inv (u :: q) rk pops ->
  let st := fold_left (rank_relax false (rk_at rk u + 1)) (children es u) (rk, q) in
  rank_inv (snd st) (fst st) (S pops).
Proof.
  intros Hinv. destruct Hinv as [Hlen Hq Hchain Hheight Hedge Hpot].
  set (r := rk_at rk u + 1). set (cs := children es u).
  assert (Hun : u < n) by (apply Hq; left; reflexivity).
  assert (Hcs : forall c, In c cs <-> Edge es u c) by (intros c; apply children_spec).
  assert (Hall : Forall (fun c => c < length rk) cs).
  { apply Forall_forall. intros c Hc. rewrite Hlen. apply Hcs in Hc. apply (Edge_wf _ _ _ _ Hwf Hc). }
  assert (Hnd : NoDup cs) by (apply children_NoDup; exact Hu).
  destruct (relax_fst r cs rk q Hall) as [Hlen' Hnth].
  pose proof (relax_snd r cs rk q Hall Hnd) as Hq'.
  simpl. fold r cs. set (rk' := fst (fold_left (rank_relax false r) cs (rk, q))) in *.
  set (q' := snd (fold_left (rank_relax false r) cs (rk, q))) in *.
  set (P := filter (fun c => rk_at rk c <? r) cs) in *.
  assert (Hmono : forall v, rk_at rk v <= rk_at rk' v).
  { intros v. rewrite Hnth. destruct (mem v cs); lia. }
  assert (Hchg : forall v, rk_at rk' v <> rk_at rk v -> In v P /\ rk_at rk' v = r).
  { intros v Hne. rewrite Hnth in Hne |- *. destruct (mem v cs) eqn:Hm; [|congruence].
    apply mem_spec in Hm. split; [|lia]. apply filter_In. split; [exact Hm|]. apply Nat.ltb_lt. lia. }
  assert (Hu_same : rk_at rk' u = rk_at rk u).
  { rewrite Hnth. destruct (mem u cs) eqn:Hm; [|reflexivity]. apply mem_spec, Hcs in Hm.
    exfalso. exact (acyclic_irrefl _ _ Hac Hm). }
  constructor.
  - rewrite Hlen'. exact Hlen.
  - intros x Hx. rewrite Hq' in Hx. apply in_app_or in Hx. destruct Hx as [Hx|Hx].
    + apply Hq. right. exact Hx.
    + apply filter_In in Hx. destruct Hx as [Hx _]. apply Hcs in Hx. apply (Edge_wf _ _ _ _ Hwf Hx).
  - intros v Hv. destruct (Nat.eq_dec (rk_at rk' v) (rk_at rk v)) as [He|Hne].
    + rewrite He. apply Hchain. exact Hv.
    + destruct (Hchg v Hne) as [HP Hr]. rewrite Hr. apply filter_In in HP. destruct HP as [HP _].
      unfold r. rewrite Nat.add_1_r. eapply Chain_S; [apply Hchain; exact Hun | apply Hcs; exact HP].
  - intros v Hv. destruct (Nat.eq_dec (rk_at rk' v) (rk_at rk v)) as [He|Hne].
    + rewrite He. apply Hheight. exact Hv.
    + destruct (Hchg v Hne) as [HP Hr]. rewrite Hr. apply filter_In in HP. destruct HP as [HP _].
      apply Hcs in HP. pose proof (height_edge n es u v Hwf Hac HP). specialize (Hheight u Hun). unfold r. lia.
  - intros x y He. destruct (Nat.eq_dec x u) as [->|Hxu].
    + right. left. rewrite Hu_same. rewrite (Hnth y).
      apply Hcs in He. apply mem_spec in He. fold cs in He. rewrite He. unfold r. lia.
    + destruct (Nat.eq_dec (rk_at rk' x) (rk_at rk x)) as [Hx|Hx].
      * destruct (Hedge x y He) as [[Hin|Hin]|[Hle|[H0 Hp]]].
        -- congruence.
        -- left. rewrite Hq'. apply in_or_app. left. exact Hin.
        -- right. left. rewrite Hx. specialize (Hmono y). lia.
        -- right. right. split; [rewrite Hx; exact H0 | exact Hp].
      * left. rewrite Hq'. apply in_or_app. right. apply (Hchg x Hx).
  - rewrite Hq', app_length. simpl in Hpot.
    assert (Hsum : sum_over (rk_at rk) (seq 0 n) + length P <= sum_over (rk_at rk') (seq 0 n)).
    { rewrite <- (filter_mem_length P (seq 0 n)).
      - rewrite <- sum_over_ind. apply sum_over_le. intros v Hv.
        destruct (mem v P) eqn:Hm; [|specialize (Hmono v); lia].
        apply mem_spec in Hm. apply filter_In in Hm. destruct Hm as [Hm Hlt].
        apply Nat.ltb_lt in Hlt. rewrite (Hnth v). apply mem_spec in Hm. rewrite Hm. lia.
      - apply NoDup_filter. exact Hnd.
      - apply seq_NoDup.
      - intros c Hc. apply filter_In in Hc. destruct Hc as [Hc _]. apply Hcs in Hc.
        apply in_seq. destruct (Edge_wf _ _ _ _ Hwf Hc). lia. }
    lia.
Qed.

Lemma sum_ranks_bound q rk pops :
  rank_inv q rk pops -> sum_over (rk_at rk) (seq 0 n) <= n * (n - 1).
Proof.
  intros Hinv. pose proof (sum_over_bound (rk_at rk) (seq 0 n) (n - 1)) as H.
  rewrite seq_length in H. apply H. intros v Hv. apply in_seq in Hv.
  pose proof (ri_height _ _ _ Hinv v ltac:(lia)). pose proof (height_lt_n n es v ltac:(lia)). lia.
Qed.

Lemma roots_length : length (roots n es) <= n.
Proof. unfold roots. etransitivity; [apply filter_length_le with (g := fun _ => true); reflexivity|].
  assert (Hid : forall l : list nat, filter (fun _ => true) l = l).
  { induction l as [|x l IH]; simpl; [reflexivity | rewrite IH; reflexivity]. }
  rewrite Hid, seq_length. lia.
Qed.

Lemma pops_bound q rk pops : rank_inv q rk pops -> pops + length q <= n * n.
Proof.
  intros Hinv. pose proof (ri_pot _ _ _ Hinv). pose proof (sum_ranks_bound _ _ _ Hinv).
  pose proof roots_length. destruct n as [|m]; [simpl in *; lia|].
  replace (S m - 1) with m in * by lia. nia.
Qed.

(** The loop, run with enough fuel, ends with an empty queue and the invariant. *)
Lemma rank_loop_inv fuel : forall q rk pops,
  rank_inv q rk pops -> n * n < fuel + pops ->
  exists rk' pops', rank_loop false fuel es q rk pops = (rk', pops', false) /\ rank_inv [] rk' pops'.
Proof.
  induction fuel as [|f IH]; intros q rk pops Hinv Hfuel.
  - destruct q as [|u q]; simpl.
    + exists rk, pops. split; [reflexivity | exact Hinv].
    + exfalso. pose proof (pops_bound _ _ _ Hinv). simpl in *. lia.
  - destruct q as [|u q]; simpl.
    + exists rk, pops. split; [reflexivity | exact Hinv].
    + pose proof (rank_inv_step u q rk pops Hinv) as Hstep. simpl in Hstep.
      fold (rk_at rk u).
      destruct (fold_left (rank_relax false (rk_at rk u + 1)) (children es u) (rk, q)) as [rk1 q1] eqn:Hf.
      simpl in Hstep. apply IH; [exact Hstep | lia].
Qed.

Lemma final_edges rk pops :
  rank_inv [] rk pops -> forall u v, Edge es u v -> rk_at rk u + 1 <= rk_at rk v.
Proof.
  intros Hinv.
  assert (Hpos : forall h u, height n es u < h -> has_parent u -> 1 <= rk_at rk u).
  { induction h as [|h IH]; intros u Hh [p Hp]; [lia|].
    destruct (ri_edge _ _ _ Hinv p u Hp) as [[]|[Hle|[H0 Hpp]]]; [lia|].
    pose proof (height_edge n es p u Hwf Hac Hp).
    assert (1 <= rk_at rk p) by (apply IH; [lia | exact Hpp]). lia. }
  intros u v He. destruct (ri_edge _ _ _ Hinv u v He) as [[]|[Hle|[H0 Hp]]]; [exact Hle|].
  pose proof (Hpos (S (height n es u)) u ltac:(lia) Hp). lia.
Qed.

Lemma chain_le_rank rk pops :
  rank_inv [] rk pops -> forall v k, Chain es v k -> k <= rk_at rk v.
Proof.
  intros Hinv v k Hc. induction Hc as [v|u v k Hc IH He]; [lia|].
  pose proof (final_edges rk pops Hinv u v He). lia.
Qed.

Theorem rank_calc_correct_and_bounded :
  exists rk pops, rank_calc n es = (rk, pops, false) /\
    length rk = n /\
    (forall v, v < n -> longest_chain es v (rk_at rk v)) /\
    pops <= n * n.
Proof.
  unfold rank_calc, rank_calc_gen.
  destruct (rank_loop_inv (rank_fuel n) (roots n es) (repeat 0 n) 0 rank_inv_init) as [rk [pops [Heq Hinv]]].
  { unfold rank_fuel. lia. }
  exists rk, pops. split; [exact Heq|]. split; [apply (ri_len _ _ _ Hinv)|]. split.
  - intros v Hv. split; [apply (ri_chain _ _ _ Hinv v Hv)|]. apply (chain_le_rank rk pops Hinv).
  - pose proof (pops_bound _ _ _ Hinv). simpl in *. lia.
Qed.

End Rank.
