(** * Opts.v — executable model of `StreamOpts` (src/stream_opts.rs) and its builder methods

    Model only.  A caller assembles the options of a `*_with` call by chaining `rev()`,
    `interruptibility_state(..)` and `interrupted_next_item_include(..)` in any order and any number
    of times on `StreamOpts::new()` / `Default::default()`.  [opts_build] folds such a chain; the
    configuration of the call machine / stream machine is then read off the result
    ([mk_cfg_opts], [mk_scfg_opts]).  The strategy stands for the interruptibility state handed in
    (`Interruptibility::NonInterruptible` = [SNonInt]). *)
From Coq Require Import List Bool.
From FG Require Import Dag Builder Sched.
Import ListNotations.

Inductive opt_call :=
| ORev                      (* `.rev()` *)
| OState (st : strat)       (* `.interruptibility_state(state)` *)
| OIncl (b : bool).         (* `.interrupted_next_item_include(b)` *)

Record sopts := mkSOpts { so_rev : bool; so_strat : strat; so_incl : bool }.

(** `StreamOpts::default()`: forward, non-interruptible, next item included. *)
Definition sopts_default : sopts := mkSOpts false SNonInt true.

Definition opt_apply (o : sopts) (c : opt_call) : sopts :=
  match c with
  | ORev => mkSOpts true (so_strat o) (so_incl o)
  | OState st => mkSOpts (so_rev o) st (so_incl o)
  | OIncl b => mkSOpts (so_rev o) (so_strat o) b
  end.

Definition opts_build (calls : list opt_call) : sopts := fold_left opt_apply calls sopts_default.

Definition mk_cfg_opts (G : fngraph) (o : sopts) (a : api) (mt ctl : bool) (lim : nat)
           (imm : list (nat * bool)) (empty_release : bool) : cfg :=
  mk_cfg G (so_rev o) a mt ctl lim (so_strat o) (so_incl o) imm empty_release.

Definition mk_scfg_opts (G : fngraph) (o : sopts) (intr drain : bool) : scfg :=
  mk_scfg G (so_rev o) (so_strat o) intr drain.
