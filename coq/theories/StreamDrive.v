(** * StreamDrive.v — liveness of `stream*()`: a consumer that keeps polling and keeps dropping
    the FnRefs it holds reaches the end of the stream.

    The analogue, for the stream machine ([Sched.sstep]), of DriveFacts.v for the call APIs.

    1. [spoll]: `poll_next` until it stops yielding items.  From any reachable state of a live
       stream it stops with Pending or None within [sc_n sc] items; Pending means every function
       not yet yielded has a strict ancestor whose FnRef is still held; None means every function
       was yielded.  Hence: a function none of whose strict ancestors is held has been yielded —
       whatever happened before, no unrelated event is needed ([unblocked_is_yielded]).
    2. [sdrive]: poll until Pending/None, drop one held FnRef (chosen by any fair [pick]), repeat.
       Within [sc_n sc] drops the stream answers None ([stream_eventually_ends]).
       [sdrive_w] is the same consumer polling only when the waker was signalled; on the repaired
       stream it coincides with [sdrive] ([sdrive_w_eq]), on the pre-repair stream it gets stuck
       ([spoll_needs_drain]).

    Both are proved for every stream whose interruptibility wrapper is transparent: the
    non-interruptible stream (any strategy value), and `stream_with_interruptible` with the
    strategies SNonInt / SIgnore — interrupt signals may occur anywhere in the history. *)
From FG Require Import Dag Builder Sched DagFacts EdgeFacts RankFacts BuilderFacts TopoFacts AugFacts BuildFacts
     SchedInv SafetyFacts SI_Queuer SI_Wrapper IntCredit IntRun IntStream IntTransparent StreamInv SI_Stream
     CfgFacts StreamFacts StreamIntFacts.
From RecordUpdate Require Import RecordSet.
Import RecordSetNotations.
From Coq Require Import Lia.

(** ** The consumers *)

(** `poll_next` until it stops yielding items. *)
Fixpoint spoll (fuel : nat) (sc : scfg) (s : state) : state * witem :=
  match fuel with
  | 0 => (s, WPending)
  | S f => let '(s', r) := sstep sc s SNext in
           match r with WItem _ => spoll f sc s' | _ => (s', r) end
  end.

(** A fair consumer: poll until Pending/None; unless the stream has ended drop the FnRef chosen by
    [pick]; at most [k] drops. *)
Fixpoint sdrive (pick : state -> nat) (k : nat) (sc : scfg) (s : state) : state * witem :=
  let '(s1, r) := spoll (S (sc_n sc)) sc s in
  match k with
  | 0 => (s1, r)
  | S k' => match r with
            | WNone => (s1, r)
            | _ => sdrive pick k' sc (fst (sstep sc s1 (SDrop (pick s1))))
            end
  end.

(** Fairness of the choice: whenever a FnRef is held, one that is held is chosen. *)
Definition fair_held (pick : state -> nat) : Prop :=
  forall s, wait_ids (members s) <> [] -> In (pick s) (wait_ids (members s)).

(** The first FnRef held (the oldest one yielded and not dropped). *)
Definition held_pick (s : state) : nat := hd 0 (wait_ids (members s)).

Lemma held_pick_fair : fair_held held_pick.
Proof. intros s H. unfold held_pick. destruct (wait_ids (members s)); [contradiction | left; reflexivity]. Qed.

Lemma sdrive_0 pick sc s : sdrive pick 0 sc s = spoll (S (sc_n sc)) sc s.
Proof. cbn [sdrive]. destruct (spoll (S (sc_n sc)) sc s); reflexivity. Qed.

Lemma sdrive_S pick k sc s :
  sdrive pick (S k) sc s =
  match snd (spoll (S (sc_n sc)) sc s) with
  | WNone => spoll (S (sc_n sc)) sc s
  | _ => sdrive pick k sc (fst (sstep sc (fst (spoll (S (sc_n sc)) sc s)) (SDrop (pick (fst (spoll (S (sc_n sc)) sc s))))))
  end.
Proof. cbn [sdrive]. destruct (spoll (S (sc_n sc)) sc s) as [s1 r]. destruct r; reflexivity. Qed.

(** ** Streams whose wrapper is transparent *)

(** The stream is not wrapped, or the strategy never decides an interruption and the wrapper
    state says so. *)
Definition plain (sc : scfg) (s : state) : Prop :=
  sc_interruptible sc = false \/ (quiet (sc_strat sc) /\ good (w s)).

Lemma plain_squiet sc s : plain sc s -> squiet sc.
Proof. intros [H|[[H|H] _]]; unfold squiet; tauto. Qed.

Lemma R_good s s' : R s s' -> good (w s).
Proof. intros HR. destruct HR as [t a b c d Ha _ _]. rewrite w_fr. exact Ha. Qed.

(** Polls and drops keep the wrapper transparent. *)
Lemma plain_step sc s e : e <> SInt -> plain sc s -> plain sc (fst (sstep sc s e)).
Proof.
  intros Hne Hp. pose proof (plain_squiet _ _ Hp) as Hq. destruct Hp as [Hp|[Hs Hg]]; [left; exact Hp|].
  right. split; [exact Hs|].
  destruct (sstep_R sc s s e Hq Hne (R_self s Hg)) as [HR _]. exact (R_good _ _ HR).
Qed.

Lemma plain_int sc s : plain sc s -> plain sc (fst (sstep sc s SInt)).
Proof. intros [Hp|[Hs Hg]]; [left; exact Hp|]. right. split; [exact Hs | exact Hg]. Qed.

Lemma plain_run sc evs : squiet sc -> plain sc (srun sc evs).
Proof.
  intros Hq. destruct Hq as [Hq|Hq]; [left; exact Hq|]. right. split; [exact Hq|].
  assert (Hq' : squiet sc) by (right; exact Hq).
  unfold srun. exact (R_good _ _ (proj1 (ssteps_R sc Hq' evs _ _ (R_sinit sc)))).
Qed.

(** ** One poll of a transparent stream *)

Lemma st_yield_alive s id : s_alive (st_yield s id) = s_alive s.
Proof.
  unfold st_yield. cbv zeta.
  set (s2 := (clone_done_tx s) <| members := members (clone_done_tx s) ++ [mkMem id (Some id) false MWait] |>
                <| trace := trace (clone_done_tx s) ++ [Start id] |>
                <| processed := processed (clone_done_tx s) ++ [id] |>).
  assert (H2 : s_alive s2 = s_alive s) by reflexivity.
  set (s3 := match s_rem s2 with 0 => set_panic PSRem s2 | S r => s2 <| s_rem := r |> end).
  assert (H3 : s_alive s3 = s_alive s2).
  { unfold s3. destruct (s_rem s2); [|reflexivity]. unfold set_panic. destruct (panic s2); reflexivity. }
  destruct (s_rem s3 =? 0).
  - destruct (release_spec s3) as (Rf & _).
    destruct Rf as (E1 & E2 & E3 & E4 & E5 & E6 & E7 & E8 & E9 & E10 & E11 & E12 & E13 & E14 & E15 & E16 & E17).
    congruence.
  - congruence.
Qed.

Lemma st_tail_alive s : s_alive (fst (st_tail s)) = s_alive s.
Proof.
  unfold st_tail. destruct (s_tx s); [|reflexivity].
  assert (A : s_alive (fst (inner_poll s)) = s_alive s).
  { unfold inner_poll. destruct (poll_recv (ready s)) as [c r]. destruct r; reflexivity. }
  destruct (inner_poll s) as [s1 r]. simpl in A. destruct r as [| |id]; simpl; try exact A.
  rewrite st_yield_alive. exact A.
Qed.

Lemma st_inner_alive sc s :
  scfg_ok sc -> SInv sc s -> s_alive s = true -> s_alive (fst (st_inner sc s)) = true.
Proof.
  intros Hok Hinv Hal. rewrite st_inner_eq, st_tail_alive.
  destruct (sinv_pre sc s Hok Hinv Hal) as (_ & B & _). destruct B as (B1 & _). congruence.
Qed.

(** Both channels are empty, the done waker is registered, the stream holds its senders. *)
Definition idle (s : state) : Prop :=
  buf (done s) = [] /\ buf (ready s) = [] /\ rx_waker (done s) = true /\ s_tx s = true.

(** What one poll does, in terms of the history. *)
Definition next_post (sc : scfg) (s s' : state) (r : witem) : Prop :=
  SInv sc s' /\ s_alive s' = true /\
  (r = WNone <-> length (starts (trace s)) = sc_n sc) /\
  (r = WPending -> sc_drain sc = true -> idle s') /\
  match r with
  | WItem x => trace s' = trace s ++ [Start x] /\ members s' = members s ++ [mkMem x (Some x) false MWait]
  | WInt _ => False
  | _ => trace s' = trace s /\ members s' = members s
  end.

Lemma inner_next_post sc s s0 s1 r1 :
  scfg_ok sc -> SInv sc s0 -> s_alive s0 = true -> trace s0 = trace s -> members s0 = members s ->
  st_inner sc s0 = (s1, r1) ->
  next_post sc s s1 (match r1 with RPending => WPending | RNone => WNone | RSome x => WItem x end).
Proof.
  intros Hok I0 A0 T0 M0 Hin.
  destruct (st_inner_facts sc s0 s1 r1 Hok I0 A0 Hin) as (A & B & C & D).
  pose proof (st_inner_alive sc s0 Hok I0 A0) as Hal1. rewrite Hin in Hal1. simpl in Hal1.
  rewrite T0 in B. rewrite T0, M0 in D.
  unfold next_post. split; [exact A|]. split; [exact Hal1|]. split; [|split].
  - rewrite <- B. destruct r1; split; intros E; try discriminate E; reflexivity.
  - intros E Hdr. apply C; [|exact Hdr]. destruct r1; [reflexivity | discriminate E | discriminate E].
  - destruct r1; exact D.
Qed.

Lemma next_post_w sc s s1 r w' : next_post sc s s1 r -> next_post sc s (s1 <| w := w' |>) r.
Proof.
  intros (A & B & C & D & E). unfold next_post. split; [apply SInv_w; exact A|].
  split; [exact B|]. split; [exact C|]. split; [exact D | exact E].
Qed.

Theorem next_plain sc s s' r :
  scfg_ok sc -> SInv sc s -> plain sc s -> s_alive s = true ->
  sstep sc s SNext = (s', r) -> next_post sc s s' r.
Proof.
  intros Hok Hinv Hp Hal H. destruct (sc_interruptible sc) eqn:Hi.
  - destruct Hp as [Hp|[Hs [Hian Hsig]]]; [congruence|].
    assert (Hchk : w_sig (chk sc s) = false).
    { unfold chk. apply (interrupt_check_quiet (sc_strat sc) (w s) (ipend s) Hs). split; assumption. }
    destruct (sstep_next_int_cases sc s s' r Hok Hinv Hi Hal H)
      as [(A & _)|[(_ & _ & C & _)|(_ & _ & s0 & s1 & r1 & w' & I0 & A0 & T0 & M0 & Hin & -> & ->)]];
      [congruence | congruence |].
    rewrite Hchk. apply next_post_w.
    replace (wmap r1 false) with (match r1 with RPending => WPending | RNone => WNone | RSome x => WItem x end)
      by (destruct r1; reflexivity).
    exact (inner_next_post sc s s0 s1 r1 Hok I0 A0 T0 M0 Hin).
  - unfold sstep in H. rewrite Hal, Hi in H. simpl negb in H. cbv iota in H.
    set (s0 := s <| woken := false |>) in *.
    destruct (st_inner sc s0) as [s1 r1] eqn:Hin. inversion H; subst s' r; clear H.
    exact (inner_next_post sc s s0 s1 r1 Hok (SInv_woken _ _ _ Hinv) Hal eq_refl eq_refl Hin).
Qed.

(** ** History bounds under the invariant *)

Lemma SInv_starts_nodup sc s : SInv sc s -> NoDup (starts (trace s)).
Proof. intros H. eapply trace_starts_nodup. apply (sv_trace _ _ H). Qed.

Lemma SInv_ends_nodup sc s : SInv sc s -> NoDup (ends (trace s)).
Proof. intros H. eapply trace_ends_nodup. apply (sv_trace _ _ H). Qed.

Lemma SInv_starts_len sc s : SInv sc s -> length (starts (trace s)) <= sc_n sc.
Proof. intros H. apply NoDup_bounded_length; [apply (SInv_starts_nodup _ _ H) | apply (SInv_starts_lt _ _ H)]. Qed.

Lemma SInv_ends_le_starts sc s : SInv sc s -> length (ends (trace s)) <= length (starts (trace s)).
Proof.
  intros H. apply NoDup_incl_length; [apply (SInv_ends_nodup _ _ H)|].
  intros x Hx. apply (SInv_ends_started _ _ H). exact Hx.
Qed.

(** All [sc_n sc] functions were yielded iff each of them was. *)
Lemma SInv_all_started sc s :
  SInv sc s -> (length (starts (trace s)) = sc_n sc <-> forall c, c < sc_n sc -> In c (starts (trace s))).
Proof.
  intros H. split.
  - intros Hlen c Hc.
    assert (Hincl : incl (seq 0 (sc_n sc)) (starts (trace s))).
    { apply NoDup_length_incl; [apply (SInv_starts_nodup _ _ H) | rewrite seq_length; lia |].
      intros x Hx. apply in_seq. pose proof (SInv_starts_lt _ _ H x Hx). lia. }
    apply Hincl. apply in_seq. lia.
  - intros Hall. pose proof (SInv_starts_len _ _ H) as Hle.
    assert (Hge : length (seq 0 (sc_n sc)) <= length (starts (trace s))).
    { apply NoDup_incl_length; [apply seq_NoDup|]. intros x Hx. apply in_seq in Hx. apply Hall. lia. }
    rewrite seq_length in Hge. lia.
Qed.

(** ** 1. Polling until the stream stops yielding *)

(** The result of [spoll] with enough fuel: the answer of a real last poll, Pending or None. *)
Definition spoll_post (sc : scfg) (s s' : state) (r : witem) : Prop :=
  SInv sc s' /\ s_alive s' = true /\ plain sc s' /\
  ends (trace s') = ends (trace s) /\
  (exists ys, starts (trace s') = starts (trace s) ++ ys /\
              wait_ids (members s') = wait_ids (members s) ++ ys) /\
  (exists s0, SInv sc s0 /\ s_alive s0 = true /\ sstep sc s0 SNext = (s', r)) /\
  ((r = WNone /\ length (starts (trace s')) = sc_n sc) \/
   (r = WPending /\ length (starts (trace s')) < sc_n sc /\ (sc_drain sc = true -> idle s'))).

Lemma spoll_spec sc : scfg_ok sc ->
  forall fuel s, SInv sc s -> plain sc s -> s_alive s = true ->
  sc_n sc - length (starts (trace s)) < fuel ->
  forall s' r, spoll fuel sc s = (s', r) -> spoll_post sc s s' r.
Proof.
  intros Hok. induction fuel as [|f IH]; intros s Hinv Hp Hal Hfuel s' r H; [lia|].
  cbn [spoll] in H. destruct (sstep sc s SNext) as [s1 r1] eqn:Hstep.
  pose proof (next_plain sc s s1 r1 Hok Hinv Hp Hal Hstep) as (I1 & A1 & N1 & Q1 & TM).
  assert (Hp1 : plain sc s1).
  { pose proof (plain_step sc s SNext ltac:(discriminate) Hp) as X. rewrite Hstep in X. exact X. }
  pose proof (SInv_starts_len _ _ Hinv) as Hle.
  assert (Hsame : trace s1 = trace s -> members s1 = members s ->
                  ends (trace s1) = ends (trace s) /\
                  exists ys, starts (trace s1) = starts (trace s) ++ ys /\
                             wait_ids (members s1) = wait_ids (members s) ++ ys).
  { intros T M. rewrite T, M. split; [reflexivity|]. exists []. rewrite !app_nil_r. split; reflexivity. }
  destruct r1 as [| |x|o].
  - (* Pending *)
    inversion H; subst s' r; clear H. destruct TM as [T M]. destruct (Hsame T M) as [E Y].
    unfold spoll_post. split; [exact I1|]. split; [exact A1|]. split; [exact Hp1|]. split; [exact E|].
    split; [exact Y|]. split; [exists s; split; [exact Hinv|]; split; [exact Hal | exact Hstep]|].
    right. split; [reflexivity|]. split; [|intros Hdr; exact (Q1 eq_refl Hdr)].
    rewrite T. assert (Hne : length (starts (trace s)) <> sc_n sc) by (intros E'; apply N1 in E'; discriminate E').
    lia.
  - (* None *)
    inversion H; subst s' r; clear H. destruct TM as [T M]. destruct (Hsame T M) as [E Y].
    unfold spoll_post. split; [exact I1|]. split; [exact A1|]. split; [exact Hp1|]. split; [exact E|].
    split; [exact Y|]. split; [exists s; split; [exact Hinv|]; split; [exact Hal | exact Hstep]|].
    left. split; [reflexivity|]. rewrite T. apply N1. reflexivity.
  - (* an item: poll again *)
    destruct TM as [T M].
    assert (Hne : length (starts (trace s)) <> sc_n sc) by (intros E'; apply N1 in E'; discriminate E').
    assert (Hst : starts (trace s1) = starts (trace s) ++ [x]) by (rewrite T; apply starts_snoc_start).
    assert (Hwi : wait_ids (members s1) = wait_ids (members s) ++ [x]) by (rewrite M, wait_ids_app; reflexivity).
    assert (Hfuel1 : sc_n sc - length (starts (trace s1)) < f).
    { rewrite Hst, app_length. simpl. lia. }
    destruct (IH s1 I1 Hp1 A1 Hfuel1 s' r H) as (I' & A' & P' & E' & (ys & Y1 & Y2) & L' & R').
    unfold spoll_post. split; [exact I'|]. split; [exact A'|]. split; [exact P'|].
    split; [rewrite E', T; apply ends_snoc_start|].
    split; [exists (x :: ys); rewrite Y1, Y2, Hst, Hwi, <- !app_assoc; split; reflexivity|].
    split; [exact L' | exact R'].
  - destruct TM.
Qed.

(** The hypotheses shared by the statements below. *)
Record live (sc : scfg) (s : state) : Prop := {
  lv_ok : scfg_ok sc;
  lv_inv : SInv sc s;
  lv_plain : plain sc s;
  lv_alive : s_alive s = true
}.

Lemma live_run sc evs : scfg_ok sc -> squiet sc -> s_alive (srun sc evs) = true -> live sc (srun sc evs).
Proof.
  intros Hok Hq Hal. constructor; [exact Hok | apply sinv_run; exact Hok | apply plain_run; exact Hq | exact Hal].
Qed.

Lemma spoll_full sc s :
  live sc s -> spoll_post sc s (fst (spoll (S (sc_n sc)) sc s)) (snd (spoll (S (sc_n sc)) sc s)).
Proof.
  intros [Hok Hinv Hp Hal]. apply (spoll_spec sc Hok (S (sc_n sc)) s Hinv Hp Hal); [lia|].
  destruct (spoll (S (sc_n sc)) sc s); reflexivity.
Qed.

(** [S (sc_n sc)] polls are enough: the loop stops because the stream answered Pending or None
    (each item is a function not yielded before, and there are [sc_n sc] functions). *)
Theorem spoll_stops sc s s' r :
  live sc s -> spoll (S (sc_n sc)) sc s = (s', r) ->
  (r = WPending \/ r = WNone) /\
  exists s0, SInv sc s0 /\ s_alive s0 = true /\ sstep sc s0 SNext = (s', r).
Proof.
  intros Hl H. pose proof (spoll_full sc s Hl) as P. rewrite H in P. cbn [fst snd] in P.
  destruct P as (_ & _ & _ & _ & _ & L & [[-> _]|[-> _]]); split; auto.
Qed.

(** Pending: every function not yet yielded has a strict ancestor whose FnRef is still held. *)
Theorem spoll_pending_blocked sc s s' :
  live sc s -> sc_drain sc = true -> spoll (S (sc_n sc)) sc s = (s', WPending) ->
  forall c, c < sc_n sc -> ~ In c (starts (trace s')) ->
  exists a, Path (sc_es sc) a c /\ a <> c /\ In a (wait_ids (members s')).
Proof.
  intros Hl Hdr H. pose proof (spoll_full sc s Hl) as P. rewrite H in P. cbn [fst snd] in P.
  destruct P as (I' & A' & _ & _ & _ & _ & [[E _]|(_ & _ & Q)]); [discriminate E|].
  destruct (Q Hdr) as (Q1 & Q2 & Q3 & Q4).
  exact (blocked_by_held_ref sc s' (lv_ok _ _ Hl) I' A' Q4 Q1 Q2).
Qed.

(** None: every function was yielded. *)
Theorem spoll_none_all sc s s' :
  live sc s -> spoll (S (sc_n sc)) sc s = (s', WNone) ->
  forall c, c < sc_n sc -> In c (starts (trace s')).
Proof.
  intros Hl H. pose proof (spoll_full sc s Hl) as P. rewrite H in P. cbn [fst snd] in P.
  destruct P as (I' & _ & _ & _ & _ & _ & [[_ E]|(E & _)]); [|discriminate E].
  apply (SInv_all_started _ _ I'). exact E.
Qed.

(** Polling only yields: nothing is dropped, nothing already yielded or held is forgotten. *)
Theorem spoll_history sc s s' r :
  live sc s -> spoll (S (sc_n sc)) sc s = (s', r) ->
  live sc s' /\ ends (trace s') = ends (trace s) /\
  exists ys, starts (trace s') = starts (trace s) ++ ys /\ wait_ids (members s') = wait_ids (members s) ++ ys.
Proof.
  intros Hl H. pose proof (spoll_full sc s Hl) as P. rewrite H in P. cbn [fst snd] in P.
  destruct P as (I' & A' & P' & E' & Y' & _). split; [|split; assumption].
  constructor; [exact (lv_ok _ _ Hl) | exact I' | exact P' | exact A'].
Qed.

(** After polling until Pending/None, every function none of whose strict ancestors is held has
    been yielded. *)
Theorem spoll_unblocked_yielded sc s :
  live sc s -> sc_drain sc = true ->
  let s' := fst (spoll (S (sc_n sc)) sc s) in
  forall c, c < sc_n sc ->
    (forall a, Path (sc_es sc) a c -> a <> c -> ~ In a (wait_ids (members s'))) ->
    In c (starts (trace s')).
Proof.
  intros Hl Hdr s' c Hc Hfree. unfold s' in *. clear s'.
  destruct (spoll (S (sc_n sc)) sc s) as [s1 r] eqn:H. cbn [fst] in *.
  destruct (spoll_stops sc s s1 r Hl H) as [[->| ->] _].
  - destruct (in_dec Nat.eq_dec c (starts (trace s1))) as [Hin|Hnin]; [exact Hin|]. exfalso.
    destruct (spoll_pending_blocked sc s s1 Hl Hdr H c Hc Hnin) as (a & Pa & Na & Ha).
    exact (Hfree a Pa Na Ha).
  - exact (spoll_none_all sc s s1 Hl H c Hc).
Qed.

(** The property, on runs of the non-interruptible stream: after ANY history — polls, drops of
    FnRefs in any number and order between polls, interrupt signals — polling until Pending/None
    yields every function whose predecessors' FnRefs have all been dropped (more precisely: none of
    whose strict ancestors is currently held).  No unrelated event is needed. *)
Theorem unblocked_is_yielded sc evs :
  scfg_ok sc -> sc_interruptible sc = false -> sc_drain sc = true ->
  s_alive (srun sc evs) = true ->
  let s' := fst (spoll (S (sc_n sc)) sc (srun sc evs)) in
  forall c, c < sc_n sc ->
    (forall a, Path (sc_es sc) a c -> a <> c -> ~ In a (wait_ids (members s'))) ->
    In c (starts (trace s')).
Proof.
  intros Hok Hni Hdr Hal. apply spoll_unblocked_yielded; [|exact Hdr].
  apply live_run; [exact Hok | left; exact Hni | exact Hal].
Qed.

(** The same for `stream_with_interruptible` with a strategy that ignores signals. *)
Theorem unblocked_is_yielded_ignore sc evs :
  scfg_ok sc -> sc_strat sc = SNonInt \/ sc_strat sc = SIgnore -> sc_drain sc = true ->
  s_alive (srun sc evs) = true ->
  let s' := fst (spoll (S (sc_n sc)) sc (srun sc evs)) in
  forall c, c < sc_n sc ->
    (forall a, Path (sc_es sc) a c -> a <> c -> ~ In a (wait_ids (members s'))) ->
    In c (starts (trace s')).
Proof.
  intros Hok Hs Hdr Hal. apply spoll_unblocked_yielded; [|exact Hdr].
  apply live_run; [exact Hok | right; exact Hs | exact Hal].
Qed.

(** ** 2. The fair consumer reaches the end of the stream *)

(** A Pending answer with functions missing means some FnRef is held. *)
Lemma idle_held_nonempty sc s :
  scfg_ok sc -> SInv sc s -> s_alive s = true -> idle s -> length (starts (trace s)) < sc_n sc ->
  wait_ids (members s) <> [].
Proof.
  intros Hok Hinv Hal (Q1 & Q2 & Q3 & Q4) Hlt Hnil.
  assert (Hall : forall c, c < sc_n sc -> In c (starts (trace s))).
  { intros c Hc. destruct (in_dec Nat.eq_dec c (starts (trace s))) as [Hin|Hnin]; [exact Hin|]. exfalso.
    destruct (blocked_by_held_ref sc s Hok Hinv Hal Q4 Q1 Q2 c Hc Hnin) as (a & _ & _ & Ha).
    rewrite Hnil in Ha. destruct Ha. }
  apply (SInv_all_started _ _ Hinv) in Hall. lia.
Qed.

(** Dropping a held FnRef records one more end and keeps the stream live. *)
Lemma drop_held sc s i :
  live sc s -> In i (wait_ids (members s)) ->
  live sc (fst (sstep sc s (SDrop i))) /\
  ends (trace (fst (sstep sc s (SDrop i)))) = ends (trace s) ++ [i] /\
  starts (trace (fst (sstep sc s (SDrop i)))) = starts (trace s).
Proof.
  intros [Hok Hinv Hp Hal] Hi.
  pose proof (sinv_step sc s (SDrop i) Hok Hinv) as I'.
  pose proof (plain_step sc s (SDrop i) ltac:(discriminate) Hp) as P'.
  rewrite sstep_drop_eq in *. pose proof Hi as Hh. apply is_waiting_spec in Hh. unfold is_held in *. rewrite Hh in *.
  destruct (st_drop_spec sc s i Hinv Hi) as (_ & _ & _ & _ & _ & _ & _ & _ & E9 & _ & _ & _ & T & _).
  split; [constructor; [exact Hok | exact I' | exact P' | congruence]|].
  rewrite T. split; [apply ends_snoc_end | apply starts_snoc_end].
Qed.

(** The measure: functions whose FnRef has not been dropped yet (not yielded, or still held). *)
Definition undropped (sc : scfg) (s : state) : nat := sc_n sc - length (ends (trace s)).

Lemma sdrive_ends sc pick :
  sc_drain sc = true -> fair_held pick ->
  forall k s, live sc s -> undropped sc s <= k ->
  snd (sdrive pick k sc s) = WNone /\
  (forall c, c < sc_n sc -> In c (starts (trace (fst (sdrive pick k sc s))))).
Proof.
  intros Hdr Hfair. induction k as [|k IH]; intros s Hl Hk.
  - rewrite sdrive_0. destruct (spoll (S (sc_n sc)) sc s) as [s1 r] eqn:H. cbn [fst snd].
    pose proof (spoll_full sc s Hl) as P. rewrite H in P. cbn [fst snd] in P.
    destruct P as (I' & _ & _ & E' & _ & _ & [[-> Hall]|(_ & Hlt & _)]).
    + split; [reflexivity|]. apply (SInv_all_started _ _ I'). exact Hall.
    + exfalso. pose proof (SInv_ends_le_starts _ _ I') as Hle. rewrite E' in Hle.
      unfold undropped in Hk. lia.
  - rewrite sdrive_S. destruct (spoll (S (sc_n sc)) sc s) as [s1 r] eqn:H. cbn [fst snd].
    pose proof (spoll_full sc s Hl) as P. rewrite H in P. cbn [fst snd] in P.
    destruct P as (I' & A' & P' & E' & _ & _ & [[-> Hall]|(-> & Hlt & Q)]).
    + split; [reflexivity|]. apply (SInv_all_started _ _ I'). exact Hall.
    + assert (Hl1 : live sc s1) by (constructor; [exact (lv_ok _ _ Hl) | exact I' | exact P' | exact A']).
      pose proof (idle_held_nonempty sc s1 (lv_ok _ _ Hl) I' A' (Q Hdr) Hlt) as Hne.
      destruct (drop_held sc s1 (pick s1) Hl1 (Hfair s1 Hne)) as (Hl2 & E2 & _).
      apply IH; [exact Hl2|]. unfold undropped in *. rewrite E2, app_length, E'. simpl.
      pose proof (SInv_ends_le_starts _ _ I') as Hle. rewrite E' in Hle. lia.
Qed.

(** From any live state of a transparent stream, a consumer that keeps polling until Pending/None
    and then drops some FnRef it holds gets None — after every function was yielded — within
    [sc_n sc] drops. *)
Theorem sdrive_reaches_end sc s pick :
  live sc s -> sc_drain sc = true -> fair_held pick ->
  snd (sdrive pick (sc_n sc) sc s) = WNone /\
  (forall c, c < sc_n sc -> In c (starts (trace (fst (sdrive pick (sc_n sc) sc s))))).
Proof. intros Hl Hdr Hfair. apply sdrive_ends; try assumption. unfold undropped. lia. Qed.

(** Sharper: as many drops as there are FnRefs not dropped yet are enough. *)
Theorem sdrive_reaches_end_sharp sc s pick :
  live sc s -> sc_drain sc = true -> fair_held pick ->
  snd (sdrive pick (sc_n sc - length (ends (trace s))) sc s) = WNone.
Proof. intros Hl Hdr Hfair. apply sdrive_ends; try assumption. unfold undropped. lia. Qed.

(** The headline, on runs of the non-interruptible stream. *)
Theorem stream_eventually_ends sc evs pick :
  scfg_ok sc -> sc_interruptible sc = false -> sc_drain sc = true ->
  s_alive (srun sc evs) = true -> fair_held pick ->
  snd (sdrive pick (sc_n sc) sc (srun sc evs)) = WNone.
Proof.
  intros Hok Hni Hdr Hal Hfair.
  apply sdrive_reaches_end; [apply live_run; [exact Hok | left; exact Hni | exact Hal] | exact Hdr | exact Hfair].
Qed.

(** `stream_with_interruptible` with SNonInt / SIgnore: the same, signals anywhere in [evs]. *)
Theorem stream_eventually_ends_ignore sc evs pick :
  scfg_ok sc -> sc_strat sc = SNonInt \/ sc_strat sc = SIgnore -> sc_drain sc = true ->
  s_alive (srun sc evs) = true -> fair_held pick ->
  snd (sdrive pick (sc_n sc) sc (srun sc evs)) = WNone.
Proof.
  intros Hok Hs Hdr Hal Hfair.
  apply sdrive_reaches_end; [apply live_run; [exact Hok | right; exact Hs | exact Hal] | exact Hdr | exact Hfair].
Qed.

(** On built graphs, every direction, every value of the strategy field. *)
Theorem stream_eventually_ends_built : forall ops G p q rev st evs pick,
  build (builder_run ops) = BOk G p q ->
  let sc := mk_scfg G rev st false true in
  s_alive (srun sc evs) = true -> fair_held pick ->
  snd (sdrive pick (ncount (builder_run ops)) sc (srun sc evs)) = WNone.
Proof.
  intros ops G p q rev st evs pick Hb sc Hal Hfair.
  pose proof (build_ok_intro ops G p q Hb) as Hok.
  pose proof (scfg_ok_mk _ _ _ _ rev st false true Hok) as Hsok. fold sc in Hsok.
  assert (Hn : sc_n sc = ncount (builder_run ops)).
  { unfold sc, mk_scfg. simpl. unfold fg_n. rewrite (bo_nodes _ _ _ _ Hok). reflexivity. }
  rewrite <- Hn. apply stream_eventually_ends; try assumption; reflexivity.
Qed.

(** ** The polls of [sdrive] are polls a real executor performs

    [sdrive] polls after each drop without looking at the waker.  That is faithful for the repaired
    stream ([sc_drain sc = true]): when [spoll] stops with Pending some FnRef is held, and the drop
    of any held FnRef signals the wake-up of the polling task. *)
Theorem spoll_pending_held sc s s' :
  live sc s -> sc_drain sc = true -> spoll (S (sc_n sc)) sc s = (s', WPending) ->
  wait_ids (members s') <> [].
Proof.
  intros Hl Hdr H. pose proof (spoll_full sc s Hl) as P. rewrite H in P. cbn [fst snd] in P.
  destruct P as (I' & A' & _ & _ & _ & _ & [[E _]|(_ & Hlt & Q)]); [discriminate E|].
  exact (idle_held_nonempty sc s' (lv_ok _ _ Hl) I' A' (Q Hdr) Hlt).
Qed.

Theorem spoll_pending_drop_wakes sc s s' i :
  live sc s -> sc_drain sc = true -> spoll (S (sc_n sc)) sc s = (s', WPending) ->
  In i (wait_ids (members s')) -> woken (fst (sstep sc s' (SDrop i))) = true.
Proof.
  intros Hl Hdr H Hi. pose proof (spoll_full sc s Hl) as P. rewrite H in P. cbn [fst snd] in P.
  destruct P as (I' & A' & _ & _ & _ & _ & [[E _]|(_ & _ & Q)]); [discriminate E|].
  destruct (Q Hdr) as (_ & _ & Q3 & _).
  exact (drop_wakes sc s' i (lv_ok _ _ Hl) I' A' Q3 Hi).
Qed.

(** A consumer that respects the waker: after its drop it polls again only if the drop signalled
    the wake-up; otherwise nobody polls and it is stuck with its last answer. *)
Fixpoint sdrive_w (pick : state -> nat) (k : nat) (sc : scfg) (s : state) : state * witem :=
  let '(s1, r) := spoll (S (sc_n sc)) sc s in
  match k with
  | 0 => (s1, r)
  | S k' => match r with
            | WNone => (s1, r)
            | _ => let s2 := fst (sstep sc s1 (SDrop (pick s1))) in
                   if woken s2 then sdrive_w pick k' sc s2 else (s2, WPending)
            end
  end.

Lemma sdrive_w_0 pick sc s : sdrive_w pick 0 sc s = spoll (S (sc_n sc)) sc s.
Proof. cbn [sdrive_w]. destruct (spoll (S (sc_n sc)) sc s); reflexivity. Qed.

Lemma sdrive_w_S pick k sc s :
  sdrive_w pick (S k) sc s =
  match snd (spoll (S (sc_n sc)) sc s) with
  | WNone => spoll (S (sc_n sc)) sc s
  | _ => let s2 := fst (sstep sc (fst (spoll (S (sc_n sc)) sc s)) (SDrop (pick (fst (spoll (S (sc_n sc)) sc s))))) in
         if woken s2 then sdrive_w pick k sc s2 else (s2, WPending)
  end.
Proof. cbn [sdrive_w]. destruct (spoll (S (sc_n sc)) sc s) as [s1 r]. destruct r; reflexivity. Qed.

(** On the repaired stream it is never stuck: it does exactly what [sdrive] does. *)
Theorem sdrive_w_eq sc pick :
  sc_drain sc = true -> fair_held pick ->
  forall k s, live sc s -> sdrive_w pick k sc s = sdrive pick k sc s.
Proof.
  intros Hdr Hfair. induction k as [|k IH]; intros s Hl; [rewrite sdrive_w_0, sdrive_0; reflexivity|].
  rewrite sdrive_w_S, sdrive_S. destruct (spoll (S (sc_n sc)) sc s) as [s1 r] eqn:H. cbn [fst snd].
  destruct (spoll_stops sc s s1 r Hl H) as [[->| ->] _]; [|reflexivity].
  destruct (spoll_history sc s s1 _ Hl H) as (Hl1 & _).
  pose proof (Hfair s1 (spoll_pending_held sc s s1 Hl Hdr H)) as Hi.
  cbv zeta. rewrite (spoll_pending_drop_wakes sc s s1 _ Hl Hdr H Hi).
  apply IH. exact (proj1 (drop_held sc s1 _ Hl1 Hi)).
Qed.

Theorem stream_eventually_ends_woken sc evs pick :
  scfg_ok sc -> sc_interruptible sc = false -> sc_drain sc = true ->
  s_alive (srun sc evs) = true -> fair_held pick ->
  snd (sdrive_w pick (sc_n sc) sc (srun sc evs)) = WNone.
Proof.
  intros Hok Hni Hdr Hal Hfair.
  rewrite sdrive_w_eq; [apply stream_eventually_ends; assumption | exact Hdr | exact Hfair |].
  apply live_run; [exact Hok | left; exact Hni | exact Hal].
Qed.

Theorem stream_eventually_ends_woken_ignore sc evs pick :
  scfg_ok sc -> sc_strat sc = SNonInt \/ sc_strat sc = SIgnore -> sc_drain sc = true ->
  s_alive (srun sc evs) = true -> fair_held pick ->
  snd (sdrive_w pick (sc_n sc) sc (srun sc evs)) = WNone.
Proof.
  intros Hok Hs Hdr Hal Hfair.
  rewrite sdrive_w_eq; [apply stream_eventually_ends_ignore; assumption | exact Hdr | exact Hfair |].
  apply live_run; [exact Hok | right; exact Hs | exact Hal].
Qed.

(** ** Concrete runs *)

(** a, b -> c -> d, non-interruptible, consumer = drop the oldest held FnRef.  Three drops are
    needed and enough (d need not be dropped for the stream to end); two are not. *)
Example sdrive_example :
  let ops := [AddFn (mkFn 0 [] []); AddFn (mkFn 1 [] []); AddFn (mkFn 2 [] []); AddFn (mkFn 3 [] []);
              AddLogic 0 2; AddLogic 1 2; AddLogic 2 3] in
  match build (builder_run ops) with
  | BOk G _ _ =>
    let sc := mk_scfg G false SNonInt false true in
    let p := sdrive held_pick (sc_n sc) sc (srun sc []) in
    sc_n sc = 4 /\ snd p = WNone /\ panic (fst p) = None /\
    trace (fst p) = [Start 1; Start 0; End 1 true; End 0 true; Start 2; End 2 true; Start 3] /\
    sdrive held_pick 3 sc (srun sc []) = p /\
    snd (sdrive held_pick 2 sc (srun sc [])) = WPending /\
    trace (fst (sdrive held_pick 2 sc (srun sc []))) = [Start 1; Start 0; End 1 true; End 0 true; Start 2] /\
    (* first round only: both roots, then Pending *)
    snd (spoll (S (sc_n sc)) sc (srun sc [])) = WPending /\
    trace (fst (spoll (S (sc_n sc)) sc (srun sc []))) = [Start 1; Start 0]
  | _ => False
  end.
Proof. vm_compute. repeat split; reflexivity. Qed.

(** The same graph, `stream_with_interruptible` with IgnoreInterruptions, started in the middle of
    a history with signals: same end. *)
Example sdrive_example_ignore :
  let ops := [AddFn (mkFn 0 [] []); AddFn (mkFn 1 [] []); AddFn (mkFn 2 [] []); AddFn (mkFn 3 [] []);
              AddLogic 0 2; AddLogic 1 2; AddLogic 2 3] in
  match build (builder_run ops) with
  | BOk G _ _ =>
    let sc := mk_scfg G false SIgnore true true in
    let p := sdrive held_pick (sc_n sc) sc (srun sc [SNext; SInt; SNext; SInt; SNext; SDrop 1]) in
    snd p = WNone /\
    trace (fst p) = [Start 1; Start 0; End 1 true; End 0 true; Start 2; End 2 true; Start 3]
  | _ => False
  end.
Proof. vm_compute. split; reflexivity. Qed.

(** Sensitivity.  (1) The hypothesis [sc_drain sc = true] of part 1 is needed: with the pre-repair
    stream (one done-notification per poll) and the history of [Regress.C05_refuted_single_recv],
    polling until Pending stops although nothing is held and c was not yielded.  [sdrive] still
    gets to the end there, but only because it polls again without having been woken.
    (2) The hypothesis on the strategy is needed for "None means all yielded": with FinishCurrent a
    signal ends the stream early. *)
Example spoll_needs_drain :
  let sc := mkSCfg 3 [(0, 2, Logic); (1, 2, Logic)] [0; 0; 2] SNonInt false false in
  let p := spoll (S (sc_n sc)) sc (srun sc [SNext; SNext; SNext; SDrop 1; SDrop 0]) in
  snd p = WPending /\ wait_ids (members (fst p)) = [] /\ starts (trace (fst p)) = [1; 0] /\
  woken (fst p) = false /\
  snd (sdrive held_pick 1 sc (srun sc [SNext; SNext; SNext; SDrop 1; SDrop 0])) = WNone /\
  (* the consumer that waits for the waker is stuck for ever *)
  snd (sdrive_w held_pick (sc_n sc) sc (srun sc [SNext; SNext; SNext; SDrop 1; SDrop 0])) = WPending.
Proof. vm_compute. repeat split; reflexivity. Qed.

Example sdrive_finish_ends_early :
  let sc := mkSCfg 3 [(0, 2, Logic); (1, 2, Logic)] [0; 0; 2] SFinish true true in
  let p := sdrive held_pick (sc_n sc) sc (srun sc [SNext; SInt]) in
  snd p = WNone /\ starts (trace (fst p)) = [1].
Proof. vm_compute. split; reflexivity. Qed.

Print Assumptions held_pick_fair.
Print Assumptions next_plain.
Print Assumptions spoll_stops.
Print Assumptions spoll_pending_blocked.
Print Assumptions spoll_none_all.
Print Assumptions spoll_history.
Print Assumptions spoll_unblocked_yielded.
Print Assumptions unblocked_is_yielded.
Print Assumptions unblocked_is_yielded_ignore.
Print Assumptions sdrive_reaches_end.
Print Assumptions sdrive_reaches_end_sharp.
Print Assumptions stream_eventually_ends.
Print Assumptions stream_eventually_ends_ignore.
Print Assumptions stream_eventually_ends_built.
Print Assumptions spoll_pending_held.
Print Assumptions spoll_pending_drop_wakes.
Print Assumptions sdrive_w_eq.
Print Assumptions stream_eventually_ends_woken.
Print Assumptions stream_eventually_ends_woken_ignore.
