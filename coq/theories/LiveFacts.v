(** * LiveFacts.v — wake-up bookkeeping: whatever the scheduler half of a poll does to the done
    channel while the queuer's waker is registered there sets the task's [woken] flag. *)
From FG Require Import Dag Builder Sched SchedInv.
From RecordUpdate Require Import RecordSet.
Import RecordSetNotations.

(** The done channel is as the queuer left it (empty, waker registered), or a wake-up is pending;
    and the sender count matches the scheduler's handle. *)
Definition Qd (s : state) : Prop :=
  senders (done s) = (if s_tx s then 1 else 0) /\
  (woken s = true \/ (buf (done s) = [] /\ rx_waker (done s) = true /\ s_tx s = true)).

Lemma Qd_same s s' :
  done s' = done s -> s_tx s' = s_tx s -> woken s' = woken s -> Qd s -> Qd s'.
Proof. intros H1 H2 H3 [A B]. unfold Qd. rewrite H1, H2, H3. split; assumption. Qed.

Lemma Qd_set_panic p s : Qd s -> Qd (set_panic p s).
Proof. unfold set_panic. destruct (panic s); [auto|]. apply Qd_same; reflexivity. Qed.

Lemma Qd_take_s_tx s : Qd s -> Qd (take_s_tx s).
Proof.
  intros [Hs Hq]. unfold take_s_tx. destruct (s_tx s) eqn:Htx;
    [|split; [rewrite Htx; exact Hs | destruct Hq as [Hq|[_ [_ Hq]]]; [left; exact Hq | congruence]]].
  unfold drop_sender. rewrite Hs. unfold Qd. simpl.
  split; [reflexivity|]. destruct Hq as [Hw|[Hb [Hwk _]]].
  - left. rewrite Hw. reflexivity.
  - left. rewrite Hwk. apply orb_true_r.
Qed.

Lemma Qd_done_send s id : Qd s -> Qd (done_send s id).
Proof.
  intros [Hs Hq]. unfold done_send. destruct (try_send (done s) id) as [[c r] wk] eqn:Hts. destruct r.
  - destruct (try_send_ok _ _ _ _ Hts) as (Hb & Hc & Ho & Ho' & Hse & Hl).
    unfold Qd. simpl. split; [rewrite Hse; exact Hs|]. left.
    unfold try_send in Hts. rewrite Ho' in Hts. simpl in Hts.
    destruct (cap (done s) <=? length (buf (done s))); [discriminate|]. inversion Hts; subst.
    destruct Hq as [Hw|[_ [Hwk _]]]; [rewrite Hw; reflexivity | rewrite Hwk; apply orb_true_r].
  - apply Qd_set_panic. split; assumption.
  - split; assumption.
Qed.

Lemma Qd_drop_ready_rx s : Qd s -> Qd (drop_ready_rx s).
Proof. apply Qd_same; reflexivity. Qed.

Lemma Qd_remove_member s k : Qd s -> Qd (remove_member s k).
Proof. apply Qd_same; reflexivity. Qed.

Lemma Qd_set_member_wait s k : Qd s -> Qd (set_member_wait s k).
Proof. apply Qd_same; reflexivity. Qed.

Lemma Qd_finish_block cf s m id ok : Qd s -> Qd (finish_block cf s m id ok).
Proof.
  intros H. unfold finish_block.
  pose proof (Qd_remove_member s (m_key m) H) as H0. set (s0 := remove_member s (m_key m)) in *.
  destruct (negb ok && match c_api cf with ATryFold => true | _ => false end).
  - apply (Qd_same (drop_ready_rx (take_s_tx s0))); try reflexivity.
    apply Qd_drop_ready_rx. apply Qd_take_s_tx. exact H0.
  - set (s1 := if negb ok && match c_api cf with ATryForEach => true | _ => false end
               then take_s_tx (if Nat.max 1 (c_n cf) <=? length (errs s0) then set_panic PResult s0
                               else s0 <| errs := errs s0 ++ [id] |>)
               else s0).
    assert (H1 : Qd s1).
    { unfold s1. destruct (negb ok && match c_api cf with ATryForEach => true | _ => false end); [|exact H0].
      apply Qd_take_s_tx. destruct (Nat.max 1 (c_n cf) <=? length (errs s0)); [apply Qd_set_panic; exact H0|].
      apply (Qd_same s0); try reflexivity. exact H0. }
    set (s2 := if s_tx s1 then done_send s1 id else s1).
    assert (H2 : Qd s2) by (unfold s2; destruct (s_tx s1); [apply Qd_done_send|]; exact H1).
    set (s3 := match s_rem s2 with 0 => set_panic PSRem s2 | S r => s2 <| s_rem := r |> end).
    assert (H3 : Qd s3).
    { unfold s3. destruct (s_rem s2); [apply Qd_set_panic; exact H2|]. apply (Qd_same s2); try reflexivity. exact H2. }
    set (s4 := if s_rem s3 =? 0 then take_s_tx s3 else s3).
    assert (H4 : Qd s4) by (unfold s4; destruct (s_rem s3 =? 0); [apply Qd_take_s_tx|]; exact H3).
    set (s5 := if m_int m then take_s_tx s4 else s4).
    assert (H5 : Qd s5) by (unfold s5; destruct (m_int m); [apply Qd_take_s_tx|]; exact H4).
    apply (Qd_same s5); try reflexivity. exact H5.
Qed.

Lemma Qd_resume_block cf s m id : Qd s -> Qd (fst (resume_block cf s m id)).
Proof.
  intros H. unfold resume_block. destruct (lookup id (completed s)); [|exact H].
  simpl. apply Qd_finish_block. apply (Qd_same s); try reflexivity. exact H.
Qed.

Lemma Qd_start_block cf s m id : Qd s -> Qd (start_block cf s m id).
Proof.
  intros H. unfold start_block. apply Qd_set_member_wait.
  match goal with |- Qd (?x <| trace := _ |>) => apply (Qd_same x); try reflexivity end.
  destruct (c_mut cf && is_waiting_b s id); [apply Qd_set_panic|]; exact H.
Qed.

Lemma Qd_complete s i ok : Qd s -> Qd (complete s i ok).
Proof. apply Qd_same; reflexivity. Qed.

Lemma Qd_block_poll cf s m : Qd s -> Qd (fst (block_poll cf s m)).
Proof.
  intros H. unfold block_poll. destruct (m_st m); destruct (m_id m) as [id|].
  - destruct (lookup id (c_imm cf)).
    + apply Qd_resume_block. apply Qd_complete. apply Qd_start_block. exact H.
    + simpl. apply Qd_start_block. exact H.
  - simpl. apply Qd_remove_member. destruct (m_int m); [apply Qd_take_s_tx|]; exact H.
  - apply Qd_resume_block. exact H.
  - exact H.
Qed.

Lemma Qd_inner_poll s : Qd s -> Qd (fst (inner_poll s)).
Proof.
  intros H. unfold inner_poll. destruct (poll_recv (ready s)) as [c r]. destruct r; simpl;
    (eapply Qd_same; [| | |exact H]; reflexivity).
Qed.

Lemma Qd_w s x : Qd s -> Qd (s <| w := x |>).
Proof. apply Qd_same; reflexivity. Qed.
Lemma Qd_ipend s x : Qd s -> Qd (s <| ipend := x |>).
Proof. apply Qd_same; reflexivity. Qed.

Lemma Qd_wrapper_poll cf s : Qd s -> Qd (fst (wrapper_poll cf s)).
Proof.
  intros H. unfold wrapper_poll. destruct (w_ian (w s)); [exact H|].
  destruct (interrupt_check (c_strat cf) (w s) (ipend s)) as [w1 ip].
  set (s0 := s <| w := w1 |> <| ipend := ip |>).
  assert (H0 : Qd s0) by (apply Qd_ipend, Qd_w; exact H).
  pose proof (Qd_inner_poll s0 H0) as H1.
  destruct (w_hp w1).
  - destruct (inner_poll s0) as [s1 r]. simpl in H1. destruct r; simpl; try exact H1;
      destruct (w_sig w1); simpl; unfold w_notify, w_reset; apply Qd_w; exact H1.
  - destruct (w_sig w1); [unfold w_notify; apply Qd_w; exact H0|].
    destruct (inner_poll s0) as [s1 r]. simpl in H1. destruct r; simpl; unfold w_reset; apply Qd_w; exact H1.
Qed.

Lemma Qd_tracked_poll cf s : Qd s -> Qd (fst (tracked_poll cf s)).
Proof.
  intros H. unfold tracked_poll. pose proof (Qd_wrapper_poll cf s H) as H1.
  destruct (wrapper_poll cf s) as [s1 r]. simpl in H1.
  destruct r as [| |x|[x|]]; simpl; try exact H1.
  destruct (c_incl cf); simpl; exact H1.
Qed.

Lemma Qd_push_member s m : Qd s -> Qd (push_member s m).
Proof. apply Qd_same; reflexivity. Qed.

Lemma Qd_stream_step cf s : Qd s -> Qd (fst (stream_step cf s)).
Proof.
  intros H. unfold stream_step. destruct (limit_ok cf s && s_alive s); [|exact H].
  pose proof (Qd_tracked_poll cf s H) as H1. destruct (tracked_poll cf s) as [s1 r]. simpl in H1.
  destruct r as [| |x|[x|]]; simpl; try exact H1.
Qed.

Lemma Qd_runq_loop cf : forall fuel s, Qd s -> Qd (fst (runq_loop fuel cf s)).
Proof.
  induction fuel as [|f IH]; intros s H; simpl; [apply Qd_set_panic; exact H|].
  destruct (runq s) as [|k rest]; [exact H|].
  set (s0 := s <| runq := rest |>). assert (H0 : Qd s0) by (apply (Qd_same s); try reflexivity; exact H).
  destruct (find_member s0 k) as [m|]; [|apply IH; exact H0].
  pose proof (Qd_block_poll cf s0 m H0) as H1. destruct (block_poll cf s0 m) as [s1 rdy]. simpl in H1.
  destruct rdy; [exact H1 | apply IH; exact H1].
Qed.

Lemma Qd_sched_finish cf s : Qd s -> Qd (sched_finish cf s).
Proof.
  intros H. unfold sched_finish. set (s0 := s <| s_fin := true |>).
  assert (H0 : Qd s0) by (apply (Qd_same s); try reflexivity; exact H).
  destruct (is_seq (c_api cf)); [apply Qd_take_s_tx|]; exact H0.
Qed.

Lemma Qd_conc_loop cf : forall fuel s, Qd s -> Qd (conc_loop fuel cf s).
Proof.
  induction fuel as [|f IH]; intros s H; cbn [conc_loop]; [apply Qd_set_panic; exact H|].
  pose proof (Qd_stream_step cf s H) as H1. destruct (stream_step cf s) as [s1 prog]. simpl in H1.
  pose proof (Qd_runq_loop cf (length (runq s1) + 1) s1 H1) as H2.
  destruct (runq_loop (length (runq s1) + 1) cf s1) as [s2 fr]. simpl in H2.
  destruct (s_fin s2); [exact H2|]. destruct fr.
  - apply IH; exact H2.
  - destruct prog; [apply IH|]; exact H2.
  - destruct (negb (s_alive s2)); [apply Qd_sched_finish; exact H2|]. destruct prog; [apply IH|]; exact H2.
Qed.
