(** * CarryOver.v — a call that starts on a carried-over `InterruptibilityState`

    In the library the `InterruptibilityState` (owner of `interrupt_signal_received` and
    `poll_since_interrupt_count`, i.e. [w_recv] and [w_cnt]) can be shared by consecutive
    operations (`reborrow()`): a later call starts with [w_recv] / [w_cnt] left by an earlier one
    and possibly with signals sent and not yet received ([ipend > 0]), while the per-stream flags
    ([w_sig], [w_ipc], [w_hp], [w_ian]) start fresh.  All theorems of the development are about
    [run cf evs], which starts from [init cf] ([w = wrap0], [ipend = 0]).  Here the same guarantees
    are established for [run_carry cf recv cnt pend evs].

    The safety invariants [Inv], [Inv2], [Inv3] and the liveness predicate [Live] read the wrapper
    only through [w_ian] and never read [ipend], so the base cases carry over unchanged and the
    step lemmas do the rest. *)
From FG Require Import Dag Builder Sched DagFacts EdgeFacts RankFacts BuilderFacts TopoFacts
     SchedInv SchedInv2 SchedInv3 SafetyFacts LiveFacts LiveStep SI_Queuer SI_Init SI_Step
     SI2_Queuer SI2_Step SI3_Run LiveRun OutcomeFacts SettleFacts DriveFacts IntCredit IntRun IntTransparent.
From RecordUpdate Require Import RecordSet.
Import RecordSetNotations.
From Coq Require Import Lia Permutation.

(** ** The carried-over start state *)

(* [init_carry] is defined in Sched.v (it is part of the executable model). *)

Definition run_carry (cf : cfg) (recv : bool) (cnt pend : nat) (evs : list event) : state :=
  fold_left (step cf) evs (init_carry cf recv cnt pend).

(** The wrapper state a carried call starts with. *)
Definition carried (recv : bool) (cnt : nat) : wrap := wrap0 <| w_recv := recv |> <| w_cnt := cnt |>.

Lemma init_fields cf :
  ipend (init cf) = 0 /\ members (init cf) = [] /\ processed (init cf) = [] /\ trace (init cf) = [] /\
  woken (init cf) = true /\ result (init cf) = None.
Proof.
  unfold init.
  destruct (fold_left preload_one (preload_ids cf) (mkChan [] (Nat.max 1 (c_n cf)) 1 true false, [], false))
    as [[rc sent] bad].
  destruct bad; [unfold set_panic; simpl|]; repeat split; reflexivity.
Qed.

Lemma w_init_carry cf recv cnt pend : w (init_carry cf recv cnt pend) = carried recv cnt.
Proof. reflexivity. Qed.
Lemma ipend_init_carry cf recv cnt pend : ipend (init_carry cf recv cnt pend) = pend.
Proof. reflexivity. Qed.
Lemma init_carry_fr cf recv cnt pend : init_carry cf recv cnt pend = fr (carried recv cnt) pend (init cf).
Proof. reflexivity. Qed.

(** Nothing is carried: the ordinary call. *)
Lemma init_carry_fresh cf : init_carry cf false 0 0 = init cf.
Proof.
  rewrite init_carry_fr. pose proof (fr_id (init cf)) as E.
  rewrite w_init, (proj1 (init_fields cf)) in E. exact E.
Qed.

Lemma run_carry_fresh cf evs : run_carry cf false 0 0 evs = run cf evs.
Proof. unfold run_carry, run. rewrite init_carry_fresh. reflexivity. Qed.

Lemma run_carry_snoc cf recv cnt pend evs e :
  run_carry cf recv cnt pend (evs ++ [e]) = step cf (run_carry cf recv cnt pend evs) e.
Proof. unfold run_carry. rewrite fold_left_app. reflexivity. Qed.

(** ** The invariants read the wrapper only through [w_ian], and never read [ipend] *)

Lemma Inv_set_w cf s x : w_ian x = w_ian (w s) -> Inv cf s -> Inv cf (s <| w := x |>).
Proof. intros E H. destruct H. constructor; simpl; try assumption. rewrite E. assumption. Qed.

Lemma Inv2_set_w cf s x : w_ian x = w_ian (w s) -> Inv2 cf s -> Inv2 cf (s <| w := x |>).
Proof. intros E H. destruct H. constructor; simpl; try rewrite E; assumption. Qed.

Lemma Inv3_set_w cf s x : w_ian x = w_ian (w s) -> Inv3 cf s -> Inv3 cf (s <| w := x |>).
Proof. intros E H. destruct H. constructor; simpl; try rewrite E; assumption. Qed.

Lemma Inv3_set_ipend cf s k : Inv3 cf s -> Inv3 cf (s <| ipend := k |>).
Proof. intros H. destruct H. constructor; simpl; assumption. Qed.

Lemma Live_set_w cf s x : w_ian x = w_ian (w s) -> Live cf s -> Live cf (s <| w := x |>).
Proof.
  intros E H. unfold Live, QdR, SS in *. simpl.
  change (limit_ok cf (s <| w := x |>)) with (limit_ok cf s). rewrite E. exact H.
Qed.

Lemma Live_set_ipend cf s k : Live cf s -> Live cf (s <| ipend := k |>).
Proof. intros H. exact H. Qed.

(** All four at once. *)
Definition Good (cf : cfg) (s : state) : Prop := Inv cf s /\ Inv2 cf s /\ Inv3 cf s /\ Live cf s.

Lemma good_step cf s e : cfg_ok cf -> Good cf s -> Good cf (step cf s e).
Proof.
  intros Hok (H1 & H2 & H3 & Hl).
  split; [apply inv_step; assumption|]. split; [apply inv2_step; assumption|].
  split; [apply inv3_step; assumption | apply live_step; assumption].
Qed.

Lemma good_steps cf evs : cfg_ok cf -> forall s, Good cf s -> Good cf (fold_left (step cf) evs s).
Proof.
  intros Hok. induction evs as [|e evs IH]; intros s Hs; [exact Hs|].
  simpl. apply IH. apply good_step; assumption.
Qed.

Lemma good_init cf : cfg_ok cf -> cfg_ok2 cf -> Good cf (init cf).
Proof.
  intros Hok Hok2. split; [apply inv_init; exact Hok|]. split; [apply inv2_init; assumption|].
  split; [apply inv3_init | apply live_init].
Qed.

Lemma good_set_w_ipend cf s x k :
  w_ian x = w_ian (w s) -> Good cf s -> Good cf (s <| w := x |> <| ipend := k |>).
Proof.
  intros E (H1 & H2 & H3 & Hl).
  split; [apply Inv_set_ipend, Inv_set_w; assumption|].
  split; [apply Inv2_set_ipend, Inv2_set_w; assumption|].
  split; [apply Inv3_set_ipend, Inv3_set_w; assumption | apply Live_set_ipend, Live_set_w; assumption].
Qed.

(** ** Part 1: the base cases and every carried run *)

Theorem good_init_carry cf recv cnt pend : cfg_ok cf -> cfg_ok2 cf -> Good cf (init_carry cf recv cnt pend).
Proof.
  intros Hok Hok2. unfold init_carry. apply good_set_w_ipend; [|apply good_init; assumption].
  rewrite w_init. reflexivity.
Qed.

Theorem good_run_carry cf recv cnt pend evs :
  cfg_ok cf -> cfg_ok2 cf -> Good cf (run_carry cf recv cnt pend evs).
Proof. intros Hok Hok2. unfold run_carry. apply good_steps; [exact Hok | apply good_init_carry; assumption]. Qed.

Theorem inv_init_carry cf recv cnt pend : cfg_ok cf -> cfg_ok2 cf -> Inv cf (init_carry cf recv cnt pend).
Proof. intros A B. apply (good_init_carry cf recv cnt pend A B). Qed.
Theorem inv2_init_carry cf recv cnt pend : cfg_ok cf -> cfg_ok2 cf -> Inv2 cf (init_carry cf recv cnt pend).
Proof. intros A B. apply (good_init_carry cf recv cnt pend A B). Qed.
Theorem inv3_init_carry cf recv cnt pend : cfg_ok cf -> cfg_ok2 cf -> Inv3 cf (init_carry cf recv cnt pend).
Proof. intros A B. apply (good_init_carry cf recv cnt pend A B). Qed.
Theorem live_init_carry cf recv cnt pend : cfg_ok cf -> cfg_ok2 cf -> Live cf (init_carry cf recv cnt pend).
Proof. intros A B. apply (good_init_carry cf recv cnt pend A B). Qed.

Theorem inv_run_carry cf recv cnt pend evs :
  cfg_ok cf -> cfg_ok2 cf -> Inv cf (run_carry cf recv cnt pend evs).
Proof. intros A B. apply (good_run_carry cf recv cnt pend evs A B). Qed.
Theorem inv2_run_carry cf recv cnt pend evs :
  cfg_ok cf -> cfg_ok2 cf -> Inv2 cf (run_carry cf recv cnt pend evs).
Proof. intros A B. apply (good_run_carry cf recv cnt pend evs A B). Qed.
Theorem inv3_run_carry cf recv cnt pend evs :
  cfg_ok cf -> cfg_ok2 cf -> Inv3 cf (run_carry cf recv cnt pend evs).
Proof. intros A B. apply (good_run_carry cf recv cnt pend evs A B). Qed.
Theorem live_run_carry cf recv cnt pend evs :
  cfg_ok cf -> cfg_ok2 cf -> Live cf (run_carry cf recv cnt pend evs).
Proof. intros A B. apply (good_run_carry cf recv cnt pend evs A B). Qed.

(** ** Part 2: the C04 / C09 corollaries, at the level of states and for carried runs *)

Section GoodState.
Variables (cf : cfg) (s : state).
Hypothesis Hok : cfg_ok cf.
Hypothesis HG : Good cf s.

Lemma good_no_panic : panic s = None.
Proof. destruct HG as (H1 & _). apply (v_nopanic _ _ H1). Qed.

Lemma good_returns_complete o :
  result s = Some o -> forall x, In x (starts (trace s)) -> In x (ends (trace s)).
Proof. destruct HG as (H1 & H2 & _). intros Hres. apply (ret_started_ended _ _ o H1 H2 Hres). Qed.

Lemma good_no_deadlock :
  result s = None -> woken s = false ->
  exists i, In i (starts (trace s)) /\ ~ In i (ends (trace s)).
Proof.
  destruct HG as (H1 & H2 & H3 & Hl). intros Hres Hw.
  destruct (no_deadlock_state _ _ Hok H1 H2 H3 Hl Hres Hw) as [i [Hi Hn]].
  exists i. split.
  - apply (v_started _ _ H1). right. exact Hi.
  - intros He. apply (v_ended_split _ _ H1) in He. destruct He as [He|He]; [|exact (Hn He)].
    exact (v_fin_wait _ _ H1 i He Hi).
Qed.

Lemma good_outcome_exact o :
  result s = Some o -> s_err s = None ->
  o_processed o = starts (trace s) /\
  o_not_processed o = filter (fun i => negb (mem i (starts (trace s)))) (seq 0 (c_n cf)) /\
  (o_finished o = true <-> length (starts (trace s)) = c_n cf) /\
  (c_api cf = ATryForEach -> c_ctl cf = true ->
     (o_kind o = KContinue <-> (o_finished o = true /\ failed (trace s) = []))).
Proof.
  destruct HG as (H1 & H2 & _). intros Hres Herr.
  destruct (ret_flags cf s o H2 Hres) as (_ & _ & Ho).
  destruct (make_result_fields cf s (or_introl Herr)) as (F1 & F2 & F3 & F4 & F5).
  pose proof (ret_processed cf s o H2 Hres) as Hp.
  pose proof (ret_finished_iff cf s o H1 H2 Hres Herr) as Hfin.
  subst o. rewrite F1, F2, F3, Hp. unfold not_processed. rewrite Hp.
  split; [reflexivity|]. split; [reflexivity|]. split.
  - rewrite Nat.eqb_eq. exact Hfin.
  - intros Ha Hc. rewrite F5, Ha, Hc.
    assert (Ht : is_tfe (c_api cf) = true) by (rewrite Ha; reflexivity).
    pose proof (ret_errs_exact cf s _ H1 H2 Hres Ht) as Hperm.
    destruct (errs s) as [|e l] eqn:He; simpl.
    + apply Permutation_nil in Hperm. destruct (s_rem s =? 0); split; try tauto; try discriminate.
      intros [Hd _]. discriminate.
    + split; [discriminate|]. intros [_ Hf]. rewrite Hf in Hperm.
      apply Permutation_sym, Permutation_nil in Hperm. discriminate.
Qed.

(** Settling from a good state: quiescent, and then returned or waiting for a user future. *)
Lemma good_settle_quiesces :
  let s' := step cf s ESettle in woken s' = false \/ result s' <> None.
Proof. destruct HG as (H1 & _). exact (settle_quiesces_state cf s Hok H1). Qed.

Lemma good_settled_waits :
  let s' := step cf s ESettle in
  result s' <> None \/
  exists m i, In m (members s') /\ m_id m = Some i /\ m_st m = MWait /\
              is_waiting s' i = true /\ lookup i (completed s') = None.
Proof.
  cbv zeta. pose proof (good_step cf s ESettle Hok HG) as (G1 & G2 & G3 & Gl).
  set (s' := step cf s ESettle) in *.
  destruct good_settle_quiesces as [Hw|Hr]; [|left; exact Hr]. fold s' in Hw.
  destruct (result s') eqn:Hres; [left; discriminate|]. right.
  destruct (no_deadlock_state cf s' Hok G1 G2 G3 Gl Hres Hw) as [i [Hi Hn]].
  pose proof Hi as Hi'. apply in_wait_ids in Hi'. destruct Hi' as [m [Hm [Hid Hst]]].
  exists m, i. split; [exact Hm|]. split; [exact Hid|]. split; [exact Hst|].
  split; [apply is_waiting_spec; exact Hi|].
  unfold lookup. destruct (find (fun p => fst p =? i) (completed s')) as [p|] eqn:Hf; [|reflexivity].
  exfalso. apply Hn. destruct (find_some _ _ Hf) as [Hin Heq]. apply Nat.eqb_eq in Heq.
  apply in_map_iff. exists p. split; assumption.
Qed.
End GoodState.

(** [drive] from any good state: at most (number of functions not yet ended) completions. *)
Lemma drive_returns_good cf pick :
  cfg_ok cf -> fair_pick pick ->
  forall k s, Good cf s -> unended cf s <= k -> result (drive pick k cf s) <> None.
Proof.
  intros Hok Hfair. induction k as [|k IH]; intros s HG Hk.
  - cbn [drive]. change (settle (settle_fuel cf) cf s) with (step cf s ESettle).
    destruct (good_settled_waits cf s Hok HG) as [Hr|(m & i & _ & _ & _ & Hw & Hl)]; [exact Hr|].
    exfalso. set (s' := step cf s ESettle) in *.
    assert (Hinv : Inv cf s') by (apply (good_step cf s ESettle Hok HG)).
    pose proof (enabled_unended cf s' i Hinv (conj Hw Hl)) as Hlt.
    assert (Hle : length (ends (trace s)) <= length (ends (trace s'))).
    { apply Ext_ends_le. apply Ext_step. }
    unfold unended in Hk. lia.
  - cbn [drive]. change (settle (settle_fuel cf) cf s) with (step cf s ESettle).
    set (s' := step cf s ESettle).
    assert (HG' : Good cf s') by (apply good_step; assumption).
    destruct (result s') eqn:Hres; [simpl; rewrite Hres; discriminate|]. cbn [is_none].
    destruct (good_settled_waits cf s Hok HG) as [Hr|(m & i & _ & _ & _ & Hw & Hl)];
      [fold s' in Hr; congruence|]. fold s' in Hw, Hl.
    assert (He : enabled s' (fst (pick s'))) by (apply Hfair; exists i; split; assumption).
    apply IH; [apply good_step; assumption|].
    assert (Hinv : Inv cf s') by apply HG'.
    pose proof (enabled_step_unended cf s' _ (snd (pick s')) Hinv He) as Hs.
    assert (Hle : length (ends (trace s)) <= length (ends (trace s'))).
    { apply Ext_ends_le. apply Ext_step. }
    pose proof (enabled_unended cf s' _ Hinv He) as Hlt.
    unfold unended in *. lia.
Qed.

Section CarriedRun.
Variables (cf : cfg) (recv : bool) (cnt pend : nat).
Hypothesis Hok : cfg_ok cf.
Hypothesis Hok2 : cfg_ok2 cf.

(** No panic site and no fuel exhaustion is reachable. *)
Theorem carry_no_panic evs : panic (run_carry cf recv cnt pend evs) = None.
Proof. apply (good_no_panic cf). apply good_run_carry; assumption. Qed.

(** Every user future the call started has completed by the time it returns. *)
Theorem carry_returns_complete evs o :
  let s := run_carry cf recv cnt pend evs in
  result s = Some o -> forall x, In x (starts (trace s)) -> In x (ends (trace s)).
Proof. cbv zeta. apply (good_returns_complete cf). apply good_run_carry; assumption. Qed.

(** No deadlock, no lost wake-up. *)
Theorem carry_no_deadlock evs :
  let s := run_carry cf recv cnt pend evs in
  result s = None -> woken s = false ->
  exists i, In i (starts (trace s)) /\ ~ In i (ends (trace s)).
Proof. cbv zeta. apply (good_no_deadlock cf); [exact Hok | apply good_run_carry; assumption]. Qed.

(** The outcome reports exactly what was and was not run ([C09_outcome_exact] for an arbitrary
    well-formed configuration). *)
Theorem carry_outcome_exact evs o :
  let s := run_carry cf recv cnt pend evs in
  result s = Some o -> s_err s = None ->
  o_processed o = starts (trace s) /\
  o_not_processed o = filter (fun i => negb (mem i (starts (trace s)))) (seq 0 (c_n cf)) /\
  (o_finished o = true <-> length (starts (trace s)) = c_n cf) /\
  (c_api cf = ATryForEach -> c_ctl cf = true ->
     (o_kind o = KContinue <-> (o_finished o = true /\ failed (trace s) = []))).
Proof. cbv zeta. apply (good_outcome_exact cf). apply good_run_carry; assumption. Qed.

(** ** Part 3: no livelock, and the call returns *)

Theorem carry_settle_quiesces evs :
  let s := run_carry cf recv cnt pend (evs ++ [ESettle]) in
  woken s = false \/ result s <> None.
Proof.
  cbv zeta. rewrite run_carry_snoc.
  apply (good_settle_quiesces cf _ Hok). apply good_run_carry; assumption.
Qed.

Theorem carry_settled_waits_for_member evs :
  let s := run_carry cf recv cnt pend (evs ++ [ESettle]) in
  result s <> None \/
  exists m i, In m (members s) /\ m_id m = Some i /\ m_st m = MWait /\
              is_waiting s i = true /\ lookup i (completed s) = None.
Proof.
  cbv zeta. rewrite run_carry_snoc.
  apply (good_settled_waits cf _ Hok). apply good_run_carry; assumption.
Qed.

Theorem carry_eventually_returns evs pick :
  fair_pick pick ->
  result (drive pick (c_n cf) cf (run_carry cf recv cnt pend evs)) <> None.
Proof.
  intros Hfair. apply drive_returns_good; [exact Hok | exact Hfair | apply good_run_carry; assumption|].
  unfold unended. lia.
Qed.

Theorem carry_eventually_returns_sharp evs pick :
  fair_pick pick ->
  let s := run_carry cf recv cnt pend evs in
  result (drive pick (c_n cf - length (ends (trace s))) cf s) <> None.
Proof.
  intros Hfair. cbv zeta.
  apply drive_returns_good; [exact Hok | exact Hfair | apply good_run_carry; assumption|].
  unfold unended. lia.
Qed.
End CarriedRun.

(** ** Part 4: concrete calls started with a signal already received *)

(** a -> b, `for_each_concurrent`, FinishCurrent, started with [recv = true]: the first settle
    returns, nothing was handed out, the outcome is not finished. *)
Definition cf_chain2 : cfg := mkCfg 2 [(0, 1, Logic)] [0; 1] AForEach false false 0 SFinish true [] true.

Example carry_recv_returns_unfinished :
  let s := run_carry cf_chain2 true 0 0 [ESettle] in
  exists o, result s = Some o /\ o_kind o = KOk /\ o_finished o = false /\
            o_processed o = [] /\ o_not_processed o = [0; 1] /\ trace s = [] /\ panic s = None.
Proof. vm_compute. eexists. repeat split; reflexivity. Qed.

(** The same call on a fresh state runs a (and then waits for its completion). *)
Example fresh_chain2_starts :
  let s := run_carry cf_chain2 false 0 0 [ESettle] in
  result s = None /\ trace s = [Start 0] /\ woken s = false.
Proof. vm_compute. repeat split; reflexivity. Qed.

(** A signal sent before the call ([pend = 1], not yet received) has the same effect. *)
Example carry_pend_returns_unfinished :
  let s := run_carry cf_chain2 false 0 1 [ESettle] in
  exists o, result s = Some o /\ o_finished o = false /\ o_processed o = [] /\ o_not_processed o = [0; 1].
Proof. vm_compute. eexists. repeat split; reflexivity. Qed.

(** The empty graph returns finished, carried signal or not. *)
Definition cf_empty : cfg := mkCfg 0 [] [] AForEach false false 0 SFinish true [] true.

Example carry_recv_empty_finished :
  let s := run_carry cf_empty true 0 0 [ESettle] in
  exists o, result s = Some o /\ o_kind o = KOk /\ o_finished o = true /\
            o_processed o = [] /\ o_not_processed o = [] /\ panic s = None.
Proof. vm_compute. eexists. repeat split; reflexivity. Qed.

(** ** Part 5: the interrupt bookkeeping on a carried state

    The invariants above never read [w_recv] / [w_cnt] / [ipend].  One invariant of ordinary runs
    does: [IntCredit.wrap_ok] ([IntRun.wrap_ok_run]), on which the C08 bound rests.  It is FALSE
    for most carried states: its clauses [w_recv = false -> w_cnt = 0], [SNonInt => w_recv = false],
    [SFinish => w_recv = true -> w_sig = true] and [SPollN k => w_recv = true -> w_sig = (k <=? w_cnt)]
    tie the carried fields to the per-stream flag [w_sig], which starts fresh.  Exactly: *)

Lemma wrap_ok_carried_iff st recv cnt :
  wrap_ok st (carried recv cnt) <->
  (recv = false /\ cnt = 0) \/
  (recv = true /\ match st with SIgnore => True | SPollN k => cnt < k | _ => False end).
Proof.
  unfold wrap_ok, carried, wrap0. simpl. split.
  - intros (_ & _ & H3 & _ & H5). destruct recv.
    + right. split; [reflexivity|]. destruct st as [| | |k]; try exact I; try (specialize (H5 eq_refl)); try discriminate.
      symmetry in H5. apply Nat.leb_gt in H5. exact H5.
    + left. split; [reflexivity | apply H3; reflexivity].
  - intros [[-> ->]|[-> H]].
    + repeat split; try discriminate; destruct st; try reflexivity; discriminate.
    + repeat split; try discriminate; destruct st as [| | |k]; try contradiction; try reflexivity.
      intros _. symmetry. apply Nat.leb_gt. exact H.
Qed.

(** Counterexamples (the state of the vm_compute example above among them). *)
Example wrap_ok_false_finish_recv : ~ wrap_ok (c_strat cf_chain2) (w (init_carry cf_chain2 true 0 0)).
Proof. rewrite w_init_carry, wrap_ok_carried_iff. simpl. intros [[H _]|[_ H]]; [discriminate | exact H]. Qed.
Example wrap_ok_false_cnt : forall st, ~ wrap_ok st (carried false 1).
Proof. intros st. rewrite wrap_ok_carried_iff. intros [[_ H]|[H _]]; discriminate. Qed.
Example wrap_ok_false_polln : ~ wrap_ok (SPollN 2) (carried true 2).
Proof. rewrite wrap_ok_carried_iff. intros [[H _]|[_ H]]; [discriminate | lia]. Qed.

(** The strongest variant that holds on every carried state and is preserved: drop
    [w_recv = false -> w_cnt = 0], and allow "signal received, stream flags fresh". *)
Definition wrap_okc (st : strat) (w : wrap) : Prop :=
  (w_ipc w = true -> w_hp w = true /\ w_recv w = true) /\
  (w_sig w = true -> w_recv w = true) /\
  (w_ian w = true -> w_sig w = true /\ w_hp w = false) /\
  match st with
  | SNonInt => w_sig w = false /\ w_ipc w = false
  | SIgnore => w_sig w = false
  | SFinish => w_recv w = true -> w_sig w = true \/ (w_hp w = false /\ w_ipc w = false)
  | SPollN k => w_recv w = true ->
                w_sig w = (k <=? w_cnt w) \/ (w_sig w = false /\ w_hp w = false /\ w_ipc w = false)
  end.

Lemma wrap_ok_okc st w0 : wrap_ok st w0 -> wrap_okc st w0.
Proof.
  intros (H1 & H2 & H3 & H4 & H5). unfold wrap_okc.
  split; [exact H1|]. split; [exact H2|]. split; [exact H4|].
  destruct st as [| | |k].
  - split.
    + destruct (w_sig w0); [specialize (H2 eq_refl); congruence | reflexivity].
    + destruct (w_ipc w0); [destruct (H1 eq_refl); congruence | reflexivity].
  - exact H5.
  - intros Hr. left. exact (H5 Hr).
  - intros Hr. left. exact (H5 Hr).
Qed.

Lemma wrap_okc_carried st recv cnt : wrap_okc st (carried recv cnt).
Proof.
  unfold wrap_okc, carried, wrap0. simpl.
  repeat split; try discriminate; destruct st; try (split; reflexivity); try reflexivity;
    intros _; right; repeat split; reflexivity.
Qed.

Ltac spec_or :=
  repeat match goal with
         | H : ?x = ?x -> _ |- _ => specialize (H eq_refl)
         | H : true = false -> _ |- _ => clear H
         | H : false = true -> _ |- _ => clear H
         | H : _ /\ _ |- _ => destruct H
         | H : _ \/ _ |- _ => destruct H
         end.

Ltac cfin :=
  cbn -[Nat.leb Nat.sub] in *; spec_or; try discriminate; try lia;
  repeat split; intros; try discriminate; try congruence; try lia;
  try solve [left; try reflexivity; try congruence; lia
            | right; repeat split; try reflexivity; congruence].

Lemma wpost_okc st w0 ip ri w' ip' r :
  wrap_okc st w0 -> wpost st w0 ip ri = (w', ip', r) -> wrap_okc st w'.
Proof.
  unfold wrap_okc, wpost, interrupt_check, wnot, wres.
  destruct w0 as [ian hp sig ipc recv cnt].
  intros H E.
  destruct ian, hp, sig, ipc, recv; cbn -[Nat.leb Nat.sub] in H; spec_or; try discriminate;
    destruct st as [| | |k]; cbn -[Nat.leb Nat.sub] in E; spec_or; try discriminate;
    try (destruct ip as [|ip0]); cbn -[Nat.leb Nat.sub] in E;
    leb_cases; cbn -[Nat.leb Nat.sub] in E;
    try (destruct ri as [| |x]); inversion E; subst; clear E;
    cbn -[Nat.leb Nat.sub]; leb_cases; cfin.
Qed.

(** The credit inequality of IntCredit.v holds under the weaker [wrap_okc] as well. *)
Lemma wpost_creditc st incl w0 ip ri w' ip' r :
  st <> SNonInt -> st <> SIgnore ->
  wrap_okc st w0 -> (ip >= 1 \/ w_recv w0 = true) -> wpost st w0 ip ri = (w', ip', r) ->
  (ip' >= 1 \/ w_recv w' = true) /\
  recorded incl r + pcredit st incl w' <= pcredit st incl w0.
Proof.
  unfold wrap_okc, wpost, interrupt_check, wnot, wres, pcredit, recorded.
  destruct w0 as [ian hp sig ipc recv cnt].
  intros N1 N2 H S E.
  destruct st as [| | |k]; [congruence | congruence | |]; clear N1 N2.
  - destruct ian, hp, sig, ipc, recv; cbn -[Nat.leb Nat.sub] in H, S; spec_or; try discriminate;
      cbn -[Nat.leb Nat.sub] in E;
      try (destruct ip as [|ip0]); cbn -[Nat.leb Nat.sub] in E;
      try (destruct ri as [| |x]); inversion E; subst; clear E;
      destruct incl; cbn -[Nat.leb Nat.sub];
      (split; [first [right; reflexivity | left; lia | destruct S; [lia | discriminate]] | lia]).
  - destruct ian, hp, sig, ipc, recv; cbn -[Nat.leb Nat.sub] in H, S; spec_or; try discriminate;
      cbn -[Nat.leb Nat.sub] in E;
      try (destruct ip as [|ip0]); cbn -[Nat.leb Nat.sub] in E;
      leb_cases; cbn -[Nat.leb Nat.sub] in E;
      try (destruct ri as [| |x]); inversion E; subst; clear E;
      destruct incl; destruct k as [|k']; cbn -[Nat.leb Nat.sub] in *; try lia;
      (split; [first [right; reflexivity | left; lia | destruct S; [lia | discriminate]] | try lia]).
Qed.

Lemma tracked_poll_creditc cf s s' r :
  c_strat cf <> SNonInt -> c_strat cf <> SIgnore ->
  wrap_okc (c_strat cf) (w s) -> signal_present s -> tracked_poll cf s = (s', r) ->
  wrap_okc (c_strat cf) (w s') /\ signal_present s' /\ K cf s' <= K cf s.
Proof.
  intros N1 N2 Hokc Hsig Htp.
  destruct (tracked_poll_shape _ _ _ _ Htp) as (s1 & r1 & Hwp & Hw & Hp & Hlen & _).
  rewrite wrapper_poll_is_gen in Hwp.
  destruct (wrapper_gen_shape _ _ _ _ _ inner_poll_frame Hwp) as [ri Hpost].
  pose proof (wpost_okc _ _ _ _ _ _ _ Hokc Hpost) as Hok'.
  destruct (wpost_creditc _ (c_incl cf) _ _ _ _ _ _ N1 N2 Hokc Hsig Hpost) as [Hs' Hc].
  unfold signal_present, K. rewrite Hw, Hp, Hlen. split; [exact Hok'|]. split; [exact Hs'|]. lia.
Qed.

Lemma tracked_poll_wrap_okc cf s s' r :
  wrap_okc (c_strat cf) (w s) -> tracked_poll cf s = (s', r) -> wrap_okc (c_strat cf) (w s').
Proof.
  intros Hokc Htp.
  destruct (tracked_poll_shape _ _ _ _ Htp) as (s1 & r1 & Hwp & Hw & _).
  rewrite wrapper_poll_is_gen in Hwp.
  destruct (wrapper_gen_shape _ _ _ _ _ inner_poll_frame Hwp) as [ri Hpost].
  rewrite Hw. exact (wpost_okc _ _ _ _ _ _ _ Hokc Hpost).
Qed.

(** Lifted to event lists with the generic lemma of IntRun.v. *)
Definition WOc (cf : cfg) (s s' : state) : Prop := wrap_okc (c_strat cf) (w s) -> wrap_okc (c_strat cf) (w s').

Lemma wrap_okc_steps cf s evs :
  wrap_okc (c_strat cf) (w s) -> wrap_okc (c_strat cf) (w (fold_left (step cf) evs s)).
Proof.
  apply (R_steps cf (WOc cf)).
  - intros s0 A. exact A.
  - intros a b c H1 H2 A. exact (H2 (H1 A)).
  - intros s0 s1 (Hw & _ & _) A. rewrite Hw. exact A.
  - intros s0 A. destruct (tracked_poll cf s0) as [s' r] eqn:E. simpl.
    exact (tracked_poll_wrap_okc cf s0 s' r A E).
  - intros s0 A. exact A.
Qed.

Definition CRc (cf : cfg) (s s' : state) : Prop :=
  wrap_okc (c_strat cf) (w s) -> signal_present s ->
  wrap_okc (c_strat cf) (w s') /\ signal_present s' /\ K cf s' <= K cf s.

Lemma creditc_steps cf s evs :
  c_strat cf <> SNonInt -> c_strat cf <> SIgnore ->
  wrap_okc (c_strat cf) (w s) -> signal_present s ->
  wrap_okc (c_strat cf) (w (fold_left (step cf) evs s)) /\ signal_present (fold_left (step cf) evs s) /\
  K cf (fold_left (step cf) evs s) <= K cf s.
Proof.
  intros N1 N2. apply (R_steps cf (CRc cf)).
  - intros s0 A B. split; [exact A|]. split; [exact B | apply Nat.le_refl].
  - intros a b c H1 H2 A B. destruct (H1 A B) as (A1 & B1 & C1). destruct (H2 A1 B1) as (A2 & B2 & C2).
    split; [exact A2|]. split; [exact B2 | lia].
  - intros s0 s1 (Hw & Hi & Hp) A B. unfold signal_present, K in *. rewrite Hw, Hi, Hp.
    split; [exact A|]. split; [exact B | apply Nat.le_refl].
  - intros s0 A B. destruct (tracked_poll cf s0) as [s' r] eqn:E. simpl.
    exact (tracked_poll_creditc cf s0 s' r N1 N2 A B E).
  - intros s0 A B. split; [exact A|]. split; [left; simpl; lia | apply Nat.le_refl].
Qed.

Theorem wrap_okc_run_carry cf recv cnt pend evs :
  wrap_okc (c_strat cf) (w (run_carry cf recv cnt pend evs)).
Proof. unfold run_carry. apply wrap_okc_steps. rewrite w_init_carry. apply wrap_okc_carried. Qed.

(** C08 for carried calls: after a signal sent at any point of a carried call at most the usual
    bound of further ids is recorded / further functions are started. *)
Theorem carry_processed_after_signal cf recv cnt pend evs1 evs2 :
  c_strat cf <> SNonInt -> c_strat cf <> SIgnore ->
  let s1 := run_carry cf recv cnt pend evs1 in
  let s2 := run_carry cf recv cnt pend (evs1 ++ EInt :: evs2) in
  length (processed s2) <=
  length (processed s1) +
  match c_strat cf with
  | SFinish | SPollN 0 => if c_incl cf && w_hp (w s1) then 1 else 0
  | SPollN (S k') => S k'
  | _ => 0
  end.
Proof.
  intros N1 N2 s1 s2.
  assert (Hs2 : s2 = fold_left (step cf) evs2 (s1 <| ipend := S (ipend s1) |>)).
  { unfold s2, s1, run_carry. rewrite fold_left_app. reflexivity. }
  set (s1' := s1 <| ipend := S (ipend s1) |>) in *.
  assert (A1 : wrap_okc (c_strat cf) (w s1')) by (apply (wrap_okc_run_carry cf recv cnt pend evs1)).
  assert (B1 : signal_present s1') by (left; simpl; lia).
  destruct (creditc_steps cf s1' evs2 N1 N2 A1 B1) as (_ & _ & H). rewrite <- Hs2 in H.
  pose proof (pcredit_bound (c_strat cf) (c_incl cf) (w s1)) as Hb.
  unfold K in H. change (w s1') with (w s1) in H. change (processed s1') with (processed s1) in H.
  destruct (c_strat cf) as [| | |[|k']]; lia.
Qed.

Lemma new_keys_nil_new_ids ms : new_keys ms = [] -> new_ids ms = [].
Proof.
  induction ms as [|m ms IH]; intros H; [reflexivity|].
  unfold new_keys in H. simpl in H. unfold new_ids. simpl.
  destruct (m_st m); [simpl in H; discriminate|]. simpl. apply IH. exact H.
Qed.

(** Between events no block is waiting for its first poll ([LiveRun.boundary_run], carried). *)
Lemma boundary_steps cf : cfg_ok cf -> forall evs s,
  Inv cf s -> Inv2 cf s -> new_keys (members s) = [] ->
  new_keys (members (fold_left (step cf) evs s)) = [].
Proof.
  intros Hok. induction evs as [|e evs IH]; intros s A B C; [exact C|]. simpl.
  apply IH; [apply inv_step | apply inv2_step |]; try assumption.
  destruct e as [i ok| | |]; simpl.
  - destruct (is_waiting s i && is_none (lookup i (completed s))); exact C.
  - exact C.
  - apply boundary_poll; assumption.
  - clear IH. revert s A B C. induction (settle_fuel cf) as [|f IHf]; intros s A B C; [exact C|].
    simpl. destruct (woken s && is_none (result s) && is_none (panic s)); [|exact C].
    apply IHf; [apply inv_poll | apply inv2_poll | apply boundary_poll]; assumption.
Qed.

Theorem boundary_run_carry cf recv cnt pend evs :
  cfg_ok cf -> cfg_ok2 cf -> new_keys (members (run_carry cf recv cnt pend evs)) = [].
Proof.
  intros Hok Hok2. unfold run_carry.
  apply boundary_steps; [exact Hok | apply inv_init_carry; assumption | apply inv2_init_carry; assumption|].
  change (members (init_carry cf recv cnt pend)) with (members (init cf)).
  destruct (init_fields cf) as (_ & Hm & _). rewrite Hm. reflexivity.
Qed.

Theorem carry_started_after_signal cf recv cnt pend evs1 evs2 :
  cfg_ok cf -> cfg_ok2 cf -> c_strat cf <> SNonInt -> c_strat cf <> SIgnore ->
  let s1 := run_carry cf recv cnt pend evs1 in
  let s2 := run_carry cf recv cnt pend (evs1 ++ EInt :: evs2) in
  length (starts (trace s2)) <=
  length (starts (trace s1)) +
  match c_strat cf with
  | SFinish | SPollN 0 => if c_incl cf && w_hp (w s1) then 1 else 0
  | SPollN (S k') => S k'
  | _ => 0
  end.
Proof.
  intros Hok Hok2 N1 N2 s1 s2.
  pose proof (carry_processed_after_signal cf recv cnt pend evs1 evs2 N1 N2) as H. cbv zeta in H.
  fold s1 s2 in H.
  pose proof (inv2_run_carry cf recv cnt pend evs1 Hok Hok2) as X1. fold s1 in X1.
  pose proof (inv2_run_carry cf recv cnt pend (evs1 ++ EInt :: evs2) Hok Hok2) as X2. fold s2 in X2.
  pose proof (boundary_run_carry cf recv cnt pend evs1 Hok Hok2) as Hb1. fold s1 in Hb1.
  rewrite (x_processed _ _ X2), (x_processed _ _ X1), (new_keys_nil_new_ids _ Hb1), app_nil_r, app_length in H.
  lia.
Qed.

(** A call that STARTS with a signal present (already received by the earlier operation, or sent
    and not yet received) hands out at most the credit of its carried state, whatever happens:
    nothing for FinishCurrent / PollNextN 0; for PollNextN (S k') what is left of the earlier
    operation's count ([k' - cnt]) if the signal was received there, S k' if it was not. *)
Definition carry_credit (st : strat) (recv : bool) (cnt : nat) : nat :=
  match st with SPollN (S k') => if recv then k' - cnt else S k' | _ => 0 end.

Theorem carry_signal_at_start_processed cf recv cnt pend evs :
  c_strat cf <> SNonInt -> c_strat cf <> SIgnore -> recv = true \/ pend >= 1 ->
  length (processed (run_carry cf recv cnt pend evs)) <= carry_credit (c_strat cf) recv cnt.
Proof.
  intros N1 N2 Hsig. unfold run_carry.
  set (s0 := init_carry cf recv cnt pend).
  assert (A : wrap_okc (c_strat cf) (w s0)) by (unfold s0; rewrite w_init_carry; apply wrap_okc_carried).
  assert (B : signal_present s0).
  { unfold signal_present, s0. rewrite w_init_carry, ipend_init_carry.
    destruct Hsig as [->|Hp]; [right; reflexivity | left; exact Hp]. }
  destruct (creditc_steps cf s0 evs N1 N2 A B) as (_ & _ & H).
  unfold K in H. change (processed s0) with (processed (init cf)) in H.
  destruct (init_fields cf) as (_ & _ & Hp & _). rewrite Hp in H. change (w s0) with (carried recv cnt) in H.
  assert (Hc : pcredit (c_strat cf) (c_incl cf) (carried recv cnt) = carry_credit (c_strat cf) recv cnt).
  { unfold pcredit, carry_credit, carried, wrap0. simpl.
    destruct (c_strat cf) as [| | |[|k']]; try reflexivity; try (rewrite andb_false_r; reflexivity).
    destruct recv; reflexivity. }
  rewrite Hc in H. simpl in H. lia.
Qed.

Theorem carry_signal_at_start cf recv cnt pend evs :
  cfg_ok cf -> cfg_ok2 cf ->
  c_strat cf <> SNonInt -> c_strat cf <> SIgnore -> recv = true \/ pend >= 1 ->
  length (starts (trace (run_carry cf recv cnt pend evs))) <= carry_credit (c_strat cf) recv cnt.
Proof.
  intros Hok Hok2 N1 N2 Hsig.
  pose proof (carry_signal_at_start_processed cf recv cnt pend evs N1 N2 Hsig) as H.
  rewrite (x_processed _ _ (inv2_run_carry cf recv cnt pend evs Hok Hok2)), app_length in H. lia.
Qed.

(** With NonInterruptible / IgnoreInterruptions the carried state is irrelevant: the carried call
    with any signals is, up to the wrapper's private bookkeeping, the fresh call without signals. *)
Theorem carry_ignore_transparent cf recv cnt pend evs :
  c_strat cf = SNonInt \/ c_strat cf = SIgnore ->
  let s := run_carry cf recv cnt pend evs in
  let s' := run cf (strip evs) in
  same_but_wrap s s' /\ trace s = trace s' /\ result s = result s' /\
  processed s = processed s' /\ woken s = woken s' /\ panic s = panic s'.
Proof.
  intros Hq s s'.
  assert (HR : R s s').
  { unfold s, s', run_carry, run. apply steps_R; [exact Hq|].
    rewrite init_carry_fr.
    pose proof (fr_id (init cf)) as E. rewrite w_init, (proj1 (init_fields cf)) in E.
    rewrite <- E at 2. constructor; [split; reflexivity | exact good_wrap0 | reflexivity]. }
  pose proof (R_same _ _ HR) as H. split; [exact H|].
  split; [exact (same_but_wrap_proj trace _ _ trace_fr H)|].
  split; [exact (same_but_wrap_proj result _ _ result_fr H)|].
  split; [exact (same_but_wrap_proj processed _ _ processed_fr H)|].
  split; [exact (same_but_wrap_proj woken _ _ woken_fr H) | exact (same_but_wrap_proj panic _ _ panic_fr H)].
Qed.

(** PollNextN 2 carried with the signal already received: with no poll counted yet ([cnt = 0]) the
    credit is 1 and exactly one function is handed out; with one poll counted ([cnt = 1]) the credit
    is spent and the call returns at once with nothing processed. *)
Definition cf_two_poll2 : cfg := mkCfg 2 [] [0; 0] AForEach false false 0 (SPollN 2) true [] true.

Example carry_polln_credit_tight :
  let s := run_carry cf_two_poll2 true 0 0 [ESettle] in
  starts (trace s) = [1] /\ carry_credit (c_strat cf_two_poll2) true 0 = 1.
Proof. vm_compute. split; reflexivity. Qed.

Example carry_polln_credit_spent :
  let s := run_carry cf_two_poll2 true 1 0 [ESettle] in
  exists o, result s = Some o /\ o_finished o = false /\ o_processed o = [] /\
            carry_credit (c_strat cf_two_poll2) true 1 = 0.
Proof. vm_compute. eexists. repeat split; reflexivity. Qed.

Print Assumptions good_run_carry.
Print Assumptions carry_no_panic.
Print Assumptions carry_returns_complete.
Print Assumptions carry_no_deadlock.
Print Assumptions carry_outcome_exact.
Print Assumptions carry_settle_quiesces.
Print Assumptions carry_settled_waits_for_member.
Print Assumptions carry_eventually_returns.
Print Assumptions carry_eventually_returns_sharp.
Print Assumptions wrap_okc_run_carry.
Print Assumptions carry_processed_after_signal.
Print Assumptions carry_started_after_signal.
Print Assumptions carry_signal_at_start.
Print Assumptions carry_ignore_transparent.
Print Assumptions wrap_ok_carried_iff.
