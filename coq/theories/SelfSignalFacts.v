(** Facts about [SelfSignal]: with no signalling function the variant is [Sched] itself, so it is a
    conservative extension of the machine all property theorems are about. *)
From Coq Require Import List Arith Bool.
From RecordUpdate Require Import RecordSet.
From FG Require Import Dag Builder Sched SelfSignal.
Import ListNotations RecordSetNotations.

Lemma resume_block_sig_none cf s mk m id :
  resume_block_sig None cf (s, mk) m id =
  (let '(s', b) := resume_block cf s m id in ((s', mk), b)).
Proof.
  unfold resume_block_sig. cbn [fst snd]. destruct (resume_block cf s m id) as [s' b].
  destruct b; reflexivity.
Qed.

Lemma block_poll_sig_none cf s mk m :
  block_poll_sig None cf (s, mk) m = (let '(s', b) := block_poll cf s m in ((s', mk), b)).
Proof.
  unfold block_poll_sig, block_poll.
  destruct (m_st m), (m_id m) as [id|]; try reflexivity.
  - destruct (lookup id (c_imm cf)); [|reflexivity]. apply resume_block_sig_none.
  - apply resume_block_sig_none.
Qed.

Lemma runq_loop_sig_none cf : forall fuel s mk,
  runq_loop_sig None fuel cf (s, mk) = (let '(s', r) := runq_loop fuel cf s in ((s', mk), r)).
Proof.
  induction fuel as [|f IH]; intros s mk; cbn [runq_loop_sig runq_loop fst snd]; [reflexivity|].
  destruct (runq s) as [|k rest]; [reflexivity|].
  destruct (find_member (s <| runq := rest |>) k) as [m|]; [|apply IH].
  rewrite block_poll_sig_none. destruct (block_poll cf (s <| runq := rest |>) m) as [s' rdy].
  destruct rdy; [reflexivity | apply IH].
Qed.

Lemma conc_loop_sig_none cf : forall fuel s mk,
  conc_loop_sig None fuel cf (s, mk) = (conc_loop fuel cf s, mk).
Proof.
  induction fuel as [|f IH]; intros s mk; cbn [conc_loop_sig conc_loop fst snd]; [reflexivity|].
  destruct (stream_step cf s) as [s1 prog].
  rewrite runq_loop_sig_none. destruct (runq_loop (length (runq s1) + 1) cf s1) as [s2 fr].
  cbn [fst snd]. destruct (s_fin s2); [reflexivity|].
  destruct fr.
  - apply IH.
  - destruct prog; [apply IH | reflexivity].
  - destruct (negb (s_alive s2)); [reflexivity|]. destruct prog; [apply IH | reflexivity].
Qed.

Lemma poll_sig_none cf s mk : poll_sig None cf (s, mk) = (poll cf s, mk).
Proof.
  unfold poll_sig, poll. destruct (result s); [reflexivity|].
  set (s1 := if q_fin (s <| woken := false |>) then s <| woken := false |>
             else q_loop (poll_fuel cf) cf (s <| woken := false |>)).
  destruct (s_fin s1); [reflexivity|]. rewrite conc_loop_sig_none. reflexivity.
Qed.

Lemma settle_sig_none cf : forall fuel s mk,
  settle_sig None fuel cf (s, mk) = (settle fuel cf s, mk).
Proof.
  induction fuel as [|f IH]; intros s mk; cbn [settle_sig settle fst]; [reflexivity|].
  destruct (woken s && is_none (result s) && is_none (panic s)); [|reflexivity].
  rewrite poll_sig_none. apply IH.
Qed.

Lemma step_sig_none cf s mk e : step_sig None cf (s, mk) e = (step cf s e, mk).
Proof.
  destruct e; cbn [step_sig step fst snd]; try reflexivity.
  - apply poll_sig_none.
  - apply settle_sig_none.
Qed.

Lemma fold_step_sig_none cf : forall evs s mk,
  fold_left (step_sig None cf) evs (s, mk) = (fold_left (step cf) evs s, mk).
Proof.
  induction evs as [|e evs IH]; intros s mk; cbn [fold_left]; [reflexivity|].
  rewrite step_sig_none. apply IH.
Qed.

Theorem run_sig_none cf evs : run_sig None cf evs = (run cf evs, None).
Proof. unfold run_sig, run. apply fold_step_sig_none. Qed.
