(** * IntTransparent.v — with [SNonInt] or [SIgnore] an interrupt signal never changes which functions run

    Run-level transparency: deleting every [EInt] (resp. [SInt]) from an event list leaves the final
    state unchanged except for the wrapper bookkeeping [w] and the count [ipend] of unread signals. *)
From FG Require Import Dag Builder Sched SchedInv IntCredit IntRun IntStream.
From RecordUpdate Require Import RecordSet.
Import RecordSetNotations.

(** ** The frame: overwrite the wrapper state and the count of unread signals *)

Definition fr (a : wrap) (b : nat) (s : state) : state := s <| w := a |> <| ipend := b |>.
Definition frp {X} (a : wrap) (b : nat) (p : state * X) : state * X := (fr a b (fst p), snd p).

Lemma fr_fr a b c d t : fr a b (fr c d t) = fr a b t.
Proof. destruct t; reflexivity. Qed.
Lemma fr_id t : fr (w t) (ipend t) t = t.
Proof. destruct t; reflexivity. Qed.
Lemma w_fr a b t : w (fr a b t) = a.
Proof. destruct t; reflexivity. Qed.
Lemma ipend_fr a b t : ipend (fr a b t) = b.
Proof. destruct t; reflexivity. Qed.

Ltac fr_field := intros; match goal with |- context[fr _ _ ?t] => destruct t; reflexivity end.

Lemma counts_fr a b t : counts (fr a b t) = counts t. Proof. fr_field. Qed.
Lemma ready_fr a b t : ready (fr a b t) = ready t. Proof. fr_field. Qed.
Lemma done_fr a b t : done (fr a b t) = done t. Proof. fr_field. Qed.
Lemma q_rem_fr a b t : q_rem (fr a b t) = q_rem t. Proof. fr_field. Qed.
Lemma q_tx_fr a b t : q_tx (fr a b t) = q_tx t. Proof. fr_field. Qed.
Lemma q_fin_fr a b t : q_fin (fr a b t) = q_fin t. Proof. fr_field. Qed.
Lemma s_rem_fr a b t : s_rem (fr a b t) = s_rem t. Proof. fr_field. Qed.
Lemma s_tx_fr a b t : s_tx (fr a b t) = s_tx t. Proof. fr_field. Qed.
Lemma s_fin_fr a b t : s_fin (fr a b t) = s_fin t. Proof. fr_field. Qed.
Lemma s_err_fr a b t : s_err (fr a b t) = s_err t. Proof. fr_field. Qed.
Lemma s_alive_fr a b t : s_alive (fr a b t) = s_alive t. Proof. fr_field. Qed.
Lemma members_fr a b t : members (fr a b t) = members t. Proof. fr_field. Qed.
Lemma runq_fr a b t : runq (fr a b t) = runq t. Proof. fr_field. Qed.
Lemma completed_fr a b t : completed (fr a b t) = completed t. Proof. fr_field. Qed.
Lemma processed_fr a b t : processed (fr a b t) = processed t. Proof. fr_field. Qed.
Lemma errs_fr a b t : errs (fr a b t) = errs t. Proof. fr_field. Qed.
Lemma result_fr a b t : result (fr a b t) = result t. Proof. fr_field. Qed.
Lemma woken_fr a b t : woken (fr a b t) = woken t. Proof. fr_field. Qed.
Lemma panic_fr a b t : panic (fr a b t) = panic t. Proof. fr_field. Qed.
Lemma trace_fr a b t : trace (fr a b t) = trace t. Proof. fr_field. Qed.

(** ** Frame lemmas: everything but the wrapper commutes with [fr] *)

Lemma set_panic_fr p a b t : set_panic p (fr a b t) = fr a b (set_panic p t).
Proof. intros; destruct t; unfold set_panic, fr; cbn. destruct panic; reflexivity. Qed.

Lemma drop_ready_tx_fr a b t : drop_ready_tx (fr a b t) = fr a b (drop_ready_tx t).
Proof.
  destruct t; unfold drop_ready_tx, fr; cbn. destruct q_tx; [|reflexivity].
  destruct (drop_sender ready) as [c wk]. reflexivity.
Qed.

Lemma q_child_fr a b t c : q_child (fr a b t) c = fr a b (q_child t c).
Proof.
  destruct t; unfold q_child, fr; cbn. destruct (nth c counts 0) as [|k]; cbn.
  - unfold set_panic; cbn. destruct panic; reflexivity.
  - destruct ((k =? 0) && q_tx); [|reflexivity].
    destruct (try_send ready c) as [[ch r] wk]. destruct r; reflexivity.
Qed.

Lemma fold_q_child_fr a b l : forall t, fold_left q_child l (fr a b t) = fr a b (fold_left q_child l t).
Proof. induction l as [|c l IH]; intros t; simpl; [reflexivity|]. rewrite q_child_fr. apply IH. Qed.

Lemma q_step_fr cf a b t : q_step cf (fr a b t) = frp a b (q_step cf t).
Proof.
  unfold q_step, frp. rewrite done_fr. destruct (poll_recv (done t)) as [c r]. destruct r as [| |id]; cbn [fst snd].
  - destruct t; reflexivity.
  - rewrite <- drop_ready_tx_fr. destruct t; reflexivity.
  - rewrite <- fold_q_child_fr. f_equal. f_equal.
    destruct t; unfold fr; cbn. destruct q_rem as [|r]; cbn.
    + unfold set_panic; cbn. destruct panic; cbn; unfold drop_ready_tx; cbn; destruct q_tx; try reflexivity;
        destruct (drop_sender ready) as [c' wk]; reflexivity.
    + destruct (r =? 0); [|reflexivity]. unfold drop_ready_tx; cbn. destruct q_tx; [|reflexivity].
      destruct (drop_sender ready) as [c' wk]; reflexivity.
Qed.

Lemma q_loop_fr cf a b : forall fuel t, q_loop fuel cf (fr a b t) = fr a b (q_loop fuel cf t).
Proof.
  induction fuel as [|f IH]; intros t; simpl; [apply set_panic_fr|].
  rewrite q_step_fr. destruct (q_step cf t) as [t' cont]. unfold frp; cbn [fst snd].
  destruct cont; [apply IH | reflexivity].
Qed.

Lemma take_s_tx_fr a b t : take_s_tx (fr a b t) = fr a b (take_s_tx t).
Proof.
  destruct t; unfold take_s_tx, fr; cbn. destruct s_tx; [|reflexivity].
  destruct (drop_sender done) as [c wk]. reflexivity.
Qed.

Lemma drop_ready_rx_fr a b t : drop_ready_rx (fr a b t) = fr a b (drop_ready_rx t).
Proof. destruct t; reflexivity. Qed.

Lemma inner_poll_fr a b t : inner_poll (fr a b t) = frp a b (inner_poll t).
Proof.
  destruct t; unfold inner_poll, fr, frp; cbn. destruct (poll_recv ready) as [c r]. destruct r; reflexivity.
Qed.

Lemma push_member_fr a b t m : push_member (fr a b t) m = fr a b (push_member t m).
Proof. destruct t; reflexivity. Qed.
Lemma remove_member_fr a b t k : remove_member (fr a b t) k = fr a b (remove_member t k).
Proof. destruct t; reflexivity. Qed.
Lemma set_member_wait_fr a b t k : set_member_wait (fr a b t) k = fr a b (set_member_wait t k).
Proof. destruct t; reflexivity. Qed.
Lemma find_member_fr a b t k : find_member (fr a b t) k = find_member t k.
Proof. destruct t; reflexivity. Qed.
Lemma is_waiting_b_fr a b t i : is_waiting_b (fr a b t) i = is_waiting_b t i.
Proof. destruct t; reflexivity. Qed.
Lemma limit_ok_fr cf a b t : limit_ok cf (fr a b t) = limit_ok cf t.
Proof. destruct t; reflexivity. Qed.

Lemma done_send_fr a b t id : done_send (fr a b t) id = fr a b (done_send t id).
Proof.
  destruct t; unfold done_send, fr; cbn. destruct (try_send done id) as [[c r] wk].
  destruct r; try reflexivity. unfold set_panic; cbn. destruct panic; reflexivity.
Qed.

Lemma complete_fr a b t i ok : complete (fr a b t) i ok = fr a b (complete t i ok).
Proof. destruct t; reflexivity. Qed.

Lemma start_block_fr cf a b t m id : start_block cf (fr a b t) m id = fr a b (start_block cf t m id).
Proof.
  unfold start_block. rewrite is_waiting_b_fr. destruct (c_mut cf && is_waiting_b t id).
  - rewrite set_panic_fr. destruct (set_panic PTryWrite t); reflexivity.
  - destruct t; reflexivity.
Qed.

(* setters of single fields commute with the frame *)
Lemma set_s_rem_fr a b t r : (fr a b t) <| s_rem := r |> = fr a b (t <| s_rem := r |>).
Proof. destruct t; reflexivity. Qed.
Lemma set_errs_fr a b t r : (fr a b t) <| errs := r |> = fr a b (t <| errs := r |>).
Proof. destruct t; reflexivity. Qed.
Lemma set_g_finished_fr a b t r : (fr a b t) <| g_finished := r |> = fr a b (t <| g_finished := r |>).
Proof. destruct t; reflexivity. Qed.
Lemma set_completed_fr a b t r : (fr a b t) <| completed := r |> = fr a b (t <| completed := r |>).
Proof. destruct t; reflexivity. Qed.
Lemma set_runq_fr a b t r : (fr a b t) <| runq := r |> = fr a b (t <| runq := r |>).
Proof. destruct t; reflexivity. Qed.
Lemma set_woken_fr a b t r : (fr a b t) <| woken := r |> = fr a b (t <| woken := r |>).
Proof. destruct t; reflexivity. Qed.
Lemma set_result_fr a b t r : (fr a b t) <| result := r |> = fr a b (t <| result := r |>).
Proof. destruct t; reflexivity. Qed.
Lemma set_s_fin_fr a b t r : (fr a b t) <| s_fin := r |> = fr a b (t <| s_fin := r |>).
Proof. destruct t; reflexivity. Qed.
Lemma g_finished_fr a b t : g_finished (fr a b t) = g_finished t. Proof. fr_field. Qed.

Lemma finish_block_fr cf a b t m id ok : finish_block cf (fr a b t) m id ok = fr a b (finish_block cf t m id ok).
Proof.
  unfold finish_block. cbv zeta. rewrite remove_member_fr.
  set (t0 := remove_member t (m_key m)).
  destruct (negb ok && match c_api cf with ATryFold => true | _ => false end).
  - rewrite take_s_tx_fr, drop_ready_rx_fr, g_finished_fr.
    destruct (drop_ready_rx (take_s_tx t0)); reflexivity.
  - set (c1 := negb ok && match c_api cf with ATryForEach => true | _ => false end).
    set (u1 := if c1 then take_s_tx (if Nat.max 1 (c_n cf) <=? length (errs t0) then set_panic PResult t0
                                      else t0 <| errs := errs t0 ++ [id] |>) else t0).
    assert (E1 : (if c1 then take_s_tx (if Nat.max 1 (c_n cf) <=? length (errs (fr a b t0)) then set_panic PResult (fr a b t0)
                                      else (fr a b t0) <| errs := errs (fr a b t0) ++ [id] |>) else fr a b t0) = fr a b u1).
    { unfold u1. destruct c1; [|reflexivity]. rewrite errs_fr.
      destruct (Nat.max 1 (c_n cf) <=? length (errs t0)).
      - rewrite set_panic_fr, take_s_tx_fr. reflexivity.
      - rewrite set_errs_fr, take_s_tx_fr. reflexivity. }
    rewrite E1. clearbody u1. clear E1.
    rewrite s_tx_fr.
    set (u2 := if s_tx u1 then done_send u1 id else u1).
    assert (E2 : (if s_tx u1 then done_send (fr a b u1) id else fr a b u1) = fr a b u2).
    { unfold u2. destruct (s_tx u1); [apply done_send_fr | reflexivity]. }
    rewrite E2. clearbody u2. clear E2.
    rewrite s_rem_fr.
    set (u3 := match s_rem u2 with 0 => set_panic PSRem u2 | S r => u2 <| s_rem := r |> end).
    assert (E3 : match s_rem u2 with 0 => set_panic PSRem (fr a b u2) | S r => (fr a b u2) <| s_rem := r |> end = fr a b u3).
    { unfold u3. destruct (s_rem u2); [apply set_panic_fr | apply set_s_rem_fr]. }
    rewrite E3. clearbody u3. clear E3.
    rewrite s_rem_fr.
    set (u4 := if s_rem u3 =? 0 then take_s_tx u3 else u3).
    assert (E4 : (if s_rem u3 =? 0 then take_s_tx (fr a b u3) else fr a b u3) = fr a b u4).
    { unfold u4. destruct (s_rem u3 =? 0); [apply take_s_tx_fr | reflexivity]. }
    rewrite E4. clearbody u4. clear E4.
    set (u5 := if m_int m then take_s_tx u4 else u4).
    assert (E5 : (if m_int m then take_s_tx (fr a b u4) else fr a b u4) = fr a b u5).
    { unfold u5. destruct (m_int m); [apply take_s_tx_fr | reflexivity]. }
    rewrite E5. clearbody u5. clear E5.
    rewrite g_finished_fr. apply set_g_finished_fr.
Qed.

Lemma resume_block_fr cf a b t m id : resume_block cf (fr a b t) m id = frp a b (resume_block cf t m id).
Proof.
  unfold resume_block, frp. rewrite completed_fr. destruct (lookup id (completed t)) as [ok|]; cbn [fst snd]; [|reflexivity].
  rewrite set_completed_fr, finish_block_fr. reflexivity.
Qed.

Lemma block_poll_fr cf a b t m : block_poll cf (fr a b t) m = frp a b (block_poll cf t m).
Proof.
  unfold block_poll. destruct (m_st m), (m_id m) as [id|].
  - rewrite start_block_fr. destruct (lookup id (c_imm cf)) as [ok|]; [|reflexivity].
    rewrite complete_fr. apply resume_block_fr.
  - unfold frp; cbn [fst snd]. destruct (m_int m); rewrite ?take_s_tx_fr, remove_member_fr; reflexivity.
  - apply resume_block_fr.
  - reflexivity.
Qed.

Lemma runq_loop_fr cf a b : forall fuel t, runq_loop fuel cf (fr a b t) = frp a b (runq_loop fuel cf t).
Proof.
  induction fuel as [|f IH]; intros t; cbn [runq_loop].
  - unfold frp; cbn [fst snd]. rewrite set_panic_fr. reflexivity.
  - rewrite runq_fr. destruct (runq t) as [|k rest].
    + rewrite members_fr. reflexivity.
    + rewrite set_runq_fr, find_member_fr. destruct (find_member (t <| runq := rest |>) k) as [m|]; [|apply IH].
      rewrite block_poll_fr. destruct (block_poll cf (t <| runq := rest |>) m) as [t' rdy].
      unfold frp at 1; cbn [fst snd]. destruct rdy; [reflexivity | apply IH].
Qed.

Lemma sched_finish_fr cf a b t : sched_finish cf (fr a b t) = fr a b (sched_finish cf t).
Proof.
  unfold sched_finish. cbv zeta. rewrite set_s_fin_fr. destruct (is_seq (c_api cf)); [apply take_s_tx_fr | reflexivity].
Qed.

Lemma make_result_fr cf a b t : make_result cf (fr a b t) = make_result cf t.
Proof. destruct t; reflexivity. Qed.

(** ** The relation carried along the two runs *)

Definition good (a : wrap) : Prop := w_ian a = false /\ w_sig a = false.

Inductive R : state -> state -> Prop :=
| R_intro t a b c d : good a -> good c -> w_hp a = w_hp c -> R (fr a b t) (fr c d t).

Definition R2 {X} (p p' : state * X) : Prop := R (fst p) (fst p') /\ snd p = snd p'.

Lemma R_map (f : state -> state) s s' :
  (forall a b t, f (fr a b t) = fr a b (f t)) -> R s s' -> R (f s) (f s').
Proof. intros Hf HR. destruct HR. rewrite !Hf. constructor; assumption. Qed.

Lemma R_map2 {X} (f : state -> state * X) s s' :
  (forall a b t, f (fr a b t) = frp a b (f t)) -> R s s' -> R2 (f s) (f s').
Proof. intros Hf HR. destruct HR. rewrite !Hf. split; [constructor; assumption | reflexivity]. Qed.

Lemma R_proj {X} (f : state -> X) s s' :
  (forall a b t, f (fr a b t) = f t) -> R s s' -> f s = f s'.
Proof. intros Hf HR. destruct HR. rewrite !Hf. reflexivity. Qed.

Lemma R_self s : good (w s) -> R s s.
Proof. intros H. rewrite <- (fr_id s). constructor; [exact H | exact H | reflexivity]. Qed.

Lemma R_int s s' : R s s' -> R (s <| ipend := S (ipend s) |>) s'.
Proof.
  intros HR. destruct HR as [t a b c d Ha Hc Hh].
  replace ((fr a b t) <| ipend := S (ipend (fr a b t)) |>) with (fr a (S b) t) by (destruct t; reflexivity).
  constructor; assumption.
Qed.

Definition same_but_wrap (s s' : state) : Prop := s' <| w := w s |> <| ipend := ipend s |> = s.

Lemma R_same s s' : R s s' -> same_but_wrap s s'.
Proof.
  intros HR. destruct HR as [t a b c d _ _ _]. unfold same_but_wrap.
  change (fr (w (fr a b t)) (ipend (fr a b t)) (fr c d t) = fr a b t).
  rewrite w_fr, ipend_fr. apply fr_fr.
Qed.

(** ** The wrapper *)

Definition quiet (st : strat) : Prop := st = SNonInt \/ st = SIgnore.

Lemma interrupt_check_quiet st a b :
  quiet st -> good a ->
  good (fst (interrupt_check st a b)) /\ w_hp (fst (interrupt_check st a b)) = w_hp a.
Proof.
  intros [->| ->] [Hn Hs]; unfold interrupt_check; rewrite Hs; cbn [orb].
  - destruct (w_ipc a); cbn; repeat split; assumption.
  - destruct (w_ipc a); [cbn; repeat split; assumption|].
    destruct (w_recv a).
    + destruct a; cbn in *. repeat split; assumption.
    + destruct b as [|p]; [cbn; repeat split; assumption|].
      destruct a; cbn in *. repeat split; assumption.
Qed.

Lemma wrapper_gen_R st inner s s' :
  quiet st ->
  (forall a b t, inner (fr a b t) = frp a b (inner t)) ->
  R s s' -> R2 (wrapper_poll_gen st inner s) (wrapper_poll_gen st inner s').
Proof.
  intros Hq Hin HR. destruct HR as [t a b c d Ha Hc Hh].
  unfold wrapper_poll_gen. rewrite !w_fr, !ipend_fr.
  rewrite (proj1 Ha), (proj1 Hc).
  destruct (interrupt_check_quiet st a b Hq Ha) as [[Ha1 Ha2] Ha3].
  destruct (interrupt_check_quiet st c d Hq Hc) as [[Hc1 Hc2] Hc3].
  destruct (interrupt_check st a b) as [a1 b1]. destruct (interrupt_check st c d) as [c1 d1].
  cbn [fst] in *.
  change (fr a b t <| w := a1 |> <| ipend := b1 |>) with (fr a1 b1 (fr a b t)).
  change (fr c d t <| w := c1 |> <| ipend := d1 |>) with (fr c1 d1 (fr c d t)).
  rewrite !fr_fr, !Hin, Ha2, Hc2, Ha3, Hc3, <- Hh.
  destruct (inner t) as [t1 r1]. unfold frp; cbn [fst snd].
  assert (Hreset : forall x : witem, R2 (w_reset (fr a1 b1 t1), x) (w_reset (fr c1 d1 t1), x)).
  { intros x. split; [|reflexivity]. cbn [fst].
    replace (w_reset (fr a1 b1 t1)) with (fr (a1 <| w_hp := false |> <| w_ipc := false |>) b1 t1) by (destruct t1; reflexivity).
    replace (w_reset (fr c1 d1 t1)) with (fr (c1 <| w_hp := false |> <| w_ipc := false |>) d1 t1) by (destruct t1; reflexivity).
    constructor; [destruct a1 | destruct c1 | reflexivity]; split; assumption. }
  destruct (w_hp a).
  - destruct r1 as [| |x]; [|apply Hreset|apply Hreset].
    split; [|reflexivity]. cbn [fst]. constructor; [split; assumption | split; assumption | congruence].
  - destruct r1 as [| |x]; [|apply Hreset|apply Hreset].
    split; [|reflexivity]. cbn [fst].
    replace ((fr a1 b1 t1) <| w := w (fr a1 b1 t1) <| w_hp := true |> |>) with (fr (a1 <| w_hp := true |>) b1 t1)
      by (destruct t1; reflexivity).
    replace ((fr c1 d1 t1) <| w := w (fr c1 d1 t1) <| w_hp := true |> |>) with (fr (c1 <| w_hp := true |>) d1 t1)
      by (destruct t1; reflexivity).
    constructor; [destruct a1 | destruct c1 | reflexivity]; split; assumption.
Qed.

Lemma set_processed_fr a b t r : (fr a b t) <| processed := r |> = fr a b (t <| processed := r |>).
Proof. destruct t; reflexivity. Qed.

Lemma R_push_processed s s' x : R s s' -> R (s <| processed := processed s ++ [x] |>) (s' <| processed := processed s' ++ [x] |>).
Proof.
  apply (R_map (fun s => s <| processed := processed s ++ [x] |>)).
  intros a b t. rewrite processed_fr. apply set_processed_fr.
Qed.

Lemma tracked_poll_R cf s s' :
  quiet (c_strat cf) -> R s s' -> R2 (tracked_poll cf s) (tracked_poll cf s').
Proof.
  intros Hq HR. unfold tracked_poll. rewrite !wrapper_poll_is_gen.
  pose proof (wrapper_gen_R (c_strat cf) inner_poll s s' Hq inner_poll_fr HR) as [H1 H2].
  destruct (wrapper_poll_gen (c_strat cf) inner_poll s) as [s1 r1].
  destruct (wrapper_poll_gen (c_strat cf) inner_poll s') as [s1' r1'].
  cbn [fst snd] in H1, H2. subst r1'.
  destruct r1 as [| |x|[x|]]; try (split; [exact H1 | reflexivity]).
  - split; [apply R_push_processed, H1 | reflexivity].
  - destruct (c_incl cf); split; try reflexivity; [apply R_push_processed, H1 | exact H1].
Qed.

Lemma stream_step_R cf s s' :
  quiet (c_strat cf) -> R s s' -> R2 (stream_step cf s) (stream_step cf s').
Proof.
  intros Hq HR. unfold stream_step.
  rewrite (R_proj (limit_ok cf) s s' (limit_ok_fr cf) HR), (R_proj s_alive s s' s_alive_fr HR).
  destruct (limit_ok cf s' && s_alive s'); [|split; [exact HR | reflexivity]].
  pose proof (tracked_poll_R cf s s' Hq HR) as [H1 H2].
  destruct (tracked_poll cf s) as [s1 r1]. destruct (tracked_poll cf s') as [s1' r1'].
  cbn [fst snd] in H1, H2. subst r1'.
  destruct r1 as [| |x|[x|]]; (split; [cbn [fst] | reflexivity]).
  - exact H1.
  - apply (R_map drop_ready_rx); [apply drop_ready_rx_fr | exact H1].
  - apply (R_map (fun s => push_member s _)); [intros; apply push_member_fr | exact H1].
  - apply (R_map (fun s => push_member s _)); [intros; apply push_member_fr | exact H1].
  - apply (R_map (fun s => push_member s _)); [intros; apply push_member_fr | exact H1].
Qed.

Lemma conc_loop_R cf : quiet (c_strat cf) ->
  forall fuel s s', R s s' -> R (conc_loop fuel cf s) (conc_loop fuel cf s').
Proof.
  intros Hq. induction fuel as [|f IH]; intros s s' HR; cbn [conc_loop].
  - apply (R_map (set_panic POof)); [apply set_panic_fr | exact HR].
  - pose proof (stream_step_R cf s s' Hq HR) as [H1 H2].
    destruct (stream_step cf s) as [s1 p1]. destruct (stream_step cf s') as [s1' p1'].
    cbn [fst snd] in H1, H2. subst p1'.
    rewrite (R_proj (fun s => length (runq s)) s1 s1' (fun a b t => f_equal (@length nat) (runq_fr a b t)) H1).
    pose proof (R_map2 (runq_loop (length (runq s1') + 1) cf) s1 s1' (fun a b t => runq_loop_fr cf a b _ t) H1) as [H3 H4].
    destruct (runq_loop (length (runq s1') + 1) cf s1) as [s2 fr2].
    destruct (runq_loop (length (runq s1') + 1) cf s1') as [s2' fr2'].
    cbn [fst snd] in H3, H4. subst fr2'.
    rewrite (R_proj s_fin s2 s2' s_fin_fr H3). destruct (s_fin s2'); [exact H3|].
    rewrite (R_proj s_alive s2 s2' s_alive_fr H3).
    destruct fr2.
    + apply IH, H3.
    + destruct p1; [apply IH, H3 | exact H3].
    + destruct (negb (s_alive s2')).
      * apply (R_map (sched_finish cf)); [apply sched_finish_fr | exact H3].
      * destruct p1; [apply IH, H3 | exact H3].
Qed.

Lemma poll_R cf s s' : quiet (c_strat cf) -> R s s' -> R (poll cf s) (poll cf s').
Proof.
  intros Hq HR. unfold poll. rewrite (R_proj result s s' result_fr HR).
  destruct (result s'); [exact HR|]. cbv zeta.
  assert (H1 : R (s <| woken := false |>) (s' <| woken := false |>)).
  { apply (R_map (fun s => s <| woken := false |>)); [intros; apply set_woken_fr | exact HR]. }
  set (s1 := s <| woken := false |>) in *. set (s1' := s' <| woken := false |>) in *.
  clearbody s1 s1'.
  assert (H2 : R (if q_fin s1 then s1 else q_loop (poll_fuel cf) cf s1)
                 (if q_fin s1' then s1' else q_loop (poll_fuel cf) cf s1')).
  { rewrite (R_proj q_fin s1 s1' q_fin_fr H1). destruct (q_fin s1'); [exact H1|].
    apply (R_map (q_loop (poll_fuel cf) cf)); [intros; apply q_loop_fr | exact H1]. }
  set (s2 := if q_fin s1 then s1 else q_loop (poll_fuel cf) cf s1) in *.
  set (s2' := if q_fin s1' then s1' else q_loop (poll_fuel cf) cf s1') in *.
  clearbody s2 s2'.
  assert (H3 : R (if s_fin s2 then s2 else conc_loop (poll_fuel cf) cf s2)
                 (if s_fin s2' then s2' else conc_loop (poll_fuel cf) cf s2')).
  { rewrite (R_proj s_fin s2 s2' s_fin_fr H2). destruct (s_fin s2'); [exact H2|].
    apply conc_loop_R; assumption. }
  set (s3 := if s_fin s2 then s2 else conc_loop (poll_fuel cf) cf s2) in *.
  set (s3' := if s_fin s2' then s2' else conc_loop (poll_fuel cf) cf s2') in *.
  clearbody s3 s3'.
  rewrite (R_proj q_fin s3 s3' q_fin_fr H3), (R_proj s_fin s3 s3' s_fin_fr H3).
  destruct (q_fin s3' && s_fin s3'); [|exact H3].
  rewrite (R_proj (make_result cf) s3 s3' (make_result_fr cf) H3).
  apply (R_map (fun s => s <| result := Some (make_result cf s3') |>)); [intros; apply set_result_fr | exact H3].
Qed.

Lemma settle_R cf : quiet (c_strat cf) ->
  forall fuel s s', R s s' -> R (settle fuel cf s) (settle fuel cf s').
Proof.
  intros Hq. induction fuel as [|f IH]; intros s s' HR; cbn [settle]; [exact HR|].
  rewrite (R_proj woken s s' woken_fr HR), (R_proj result s s' result_fr HR), (R_proj panic s s' panic_fr HR).
  destruct (woken s' && is_none (result s') && is_none (panic s')); [|exact HR].
  apply IH, poll_R; assumption.
Qed.

Lemma step_cmp_fr cf i ok a b t : step cf (fr a b t) (ECmp i ok) = fr a b (step cf t (ECmp i ok)).
Proof.
  destruct t; unfold step, fr; cbn.
  match goal with |- context[if ?c then _ else _] => destruct c end; reflexivity.
Qed.

Lemma step_R cf s s' e : quiet (c_strat cf) -> e <> EInt -> R s s' -> R (step cf s e) (step cf s' e).
Proof.
  intros Hq Hne HR. destruct e as [i ok| | |].
  - apply (R_map (fun s => step cf s (ECmp i ok))); [intros; apply step_cmp_fr | exact HR].
  - congruence.
  - apply poll_R; assumption.
  - apply settle_R; assumption.
Qed.

(** ** Whole runs *)

Definition strip (evs : list event) : list event :=
  filter (fun e => match e with EInt => false | _ => true end) evs.

Lemma steps_R cf : quiet (c_strat cf) ->
  forall evs s s', R s s' -> R (fold_left (step cf) evs s) (fold_left (step cf) (strip evs) s').
Proof.
  intros Hq. induction evs as [|e evs IH]; intros s s' HR; [exact HR|].
  destruct e as [i ok| | |]; cbn [strip filter fold_left]; fold (strip evs).
  - apply IH, step_R; [assumption | discriminate | assumption].
  - apply IH. cbn [step]. apply R_int, HR.
  - apply IH, step_R; [assumption | discriminate | assumption].
  - apply IH, step_R; [assumption | discriminate | assumption].
Qed.

Lemma good_wrap0 : good wrap0.
Proof. split; reflexivity. Qed.

Theorem ignore_run_R cf evs :
  c_strat cf = SNonInt \/ c_strat cf = SIgnore -> R (run cf evs) (run cf (strip evs)).
Proof.
  intros Hq. unfold run. apply steps_R; [exact Hq|]. apply R_self. rewrite w_init. exact good_wrap0.
Qed.

Theorem ignore_run_equiv cf evs :
  c_strat cf = SNonInt \/ c_strat cf = SIgnore ->
  same_but_wrap (run cf evs) (run cf (strip evs)).
Proof. intros Hq. apply R_same, ignore_run_R, Hq. Qed.

Lemma same_but_wrap_proj {X} (f : state -> X) s s' :
  (forall a b t, f (fr a b t) = f t) -> same_but_wrap s s' -> f s = f s'.
Proof. intros Hf H. unfold same_but_wrap in H. rewrite <- H. apply (Hf (w s) (ipend s) s'). Qed.

Corollary ignore_same_trace cf evs : (c_strat cf = SNonInt \/ c_strat cf = SIgnore) ->
  trace (run cf evs) = trace (run cf (strip evs)) /\ result (run cf evs) = result (run cf (strip evs)) /\
  processed (run cf evs) = processed (run cf (strip evs)) /\ woken (run cf evs) = woken (run cf (strip evs)).
Proof.
  intros Hq. pose proof (ignore_run_equiv cf evs Hq) as H.
  repeat split.
  - exact (same_but_wrap_proj trace _ _ trace_fr H).
  - exact (same_but_wrap_proj result _ _ result_fr H).
  - exact (same_but_wrap_proj processed _ _ processed_fr H).
  - exact (same_but_wrap_proj woken _ _ woken_fr H).
Qed.

(** ** The stream machine *)

Lemma st_drain_one_fr sc a b t : st_drain_one sc (fr a b t) = frp a b (st_drain_one sc t).
Proof.
  unfold st_drain_one, frp. rewrite done_fr. destruct (poll_recv (done t)) as [c r].
  destruct r as [| |id]; cbn [fst snd]; try (destruct t; reflexivity).
  rewrite <- fold_q_child_fr. destruct t; reflexivity.
Qed.

Lemma st_drain_fr sc a b : forall fuel t, st_drain fuel sc (fr a b t) = fr a b (st_drain fuel sc t).
Proof.
  induction fuel as [|f IH]; intros t; cbn [st_drain]; [apply set_panic_fr|].
  rewrite st_drain_one_fr. destruct (st_drain_one sc t) as [t' cont]. unfold frp; cbn [fst snd].
  destruct cont; [apply IH | reflexivity].
Qed.

Lemma st_inner_tail_fr a b t id :
  (let s := clone_done_tx (fr a b t) in
   let s := s <| members := members s ++ [mkMem id (Some id) false MWait] |>
              <| trace := trace s ++ [Start id] |> <| processed := processed s ++ [id] |> in
   let s := match s_rem s with 0 => set_panic PSRem s | S r => s <| s_rem := r |> end in
   if s_rem s =? 0 then drop_ready_tx (take_s_tx s) else s)
  = fr a b
  (let s := clone_done_tx t in
   let s := s <| members := members s ++ [mkMem id (Some id) false MWait] |>
              <| trace := trace s ++ [Start id] |> <| processed := processed s ++ [id] |> in
   let s := match s_rem s with 0 => set_panic PSRem s | S r => s <| s_rem := r |> end in
   if s_rem s =? 0 then drop_ready_tx (take_s_tx s) else s).
Proof.
  cbv zeta.
  set (u := (clone_done_tx t) <| members := members (clone_done_tx t) ++ [mkMem id (Some id) false MWait] |>
              <| trace := trace (clone_done_tx t) ++ [Start id] |> <| processed := processed (clone_done_tx t) ++ [id] |>).
  replace ((clone_done_tx (fr a b t)) <| members := members (clone_done_tx (fr a b t)) ++ [mkMem id (Some id) false MWait] |>
              <| trace := trace (clone_done_tx (fr a b t)) ++ [Start id] |>
              <| processed := processed (clone_done_tx (fr a b t)) ++ [id] |>) with (fr a b u)
    by (unfold u; destruct t; reflexivity).
  clearbody u. rewrite s_rem_fr.
  set (u3 := match s_rem u with 0 => set_panic PSRem u | S r => u <| s_rem := r |> end).
  assert (E3 : match s_rem u with 0 => set_panic PSRem (fr a b u) | S r => (fr a b u) <| s_rem := r |> end = fr a b u3).
  { unfold u3. destruct (s_rem u); [apply set_panic_fr | apply set_s_rem_fr]. }
  rewrite E3. clearbody u3. clear E3. rewrite s_rem_fr.
  destruct (s_rem u3 =? 0); [|reflexivity]. rewrite take_s_tx_fr. apply drop_ready_tx_fr.
Qed.

Lemma st_inner_fr sc a b t : st_inner sc (fr a b t) = frp a b (st_inner sc t).
Proof.
  unfold st_inner. cbv zeta.
  set (t0 := if sc_drain sc then st_drain (sc_n sc + 2) sc t else fst (st_drain_one sc t)).
  assert (E0 : (if sc_drain sc then st_drain (sc_n sc + 2) sc (fr a b t) else fst (st_drain_one sc (fr a b t))) = fr a b t0).
  { unfold t0. destruct (sc_drain sc); [apply st_drain_fr | rewrite st_drain_one_fr; reflexivity]. }
  rewrite E0. clearbody t0. clear E0. rewrite s_tx_fr.
  destruct (s_tx t0); [|reflexivity].
  rewrite inner_poll_fr. destruct (inner_poll t0) as [t1 r]. unfold frp; cbn [fst snd].
  destruct r as [| |id]; try reflexivity.
  f_equal. apply (st_inner_tail_fr a b t1 id).
Qed.

Definition squiet (sc : scfg) : Prop :=
  sc_interruptible sc = false \/ sc_strat sc = SNonInt \/ sc_strat sc = SIgnore.

Lemma sstep_drop_fr sc a b t i : sstep sc (fr a b t) (SDrop i) = frp a b (sstep sc t (SDrop i)).
Proof.
  destruct t; unfold sstep, is_held, is_waiting, fr, frp; cbn.
  match goal with |- context[if ?c then _ else _] => destruct c end; [|reflexivity].
  match goal with |- context[try_send ?c ?x] => destruct (try_send c x) as [[ch r] wk] end.
  destruct r; cbn;
    match goal with |- context[drop_sender ?c] => destruct (drop_sender c) as [c' wk'] end; reflexivity.
Qed.

Lemma sstep_dropstream_fr sc a b t : sstep sc (fr a b t) SDropStream = frp a b (sstep sc t SDropStream).
Proof.
  unfold sstep, frp. rewrite s_alive_fr. destruct (s_alive t); [|reflexivity]. cbv zeta. cbn [fst snd].
  rewrite take_s_tx_fr, drop_ready_tx_fr. destruct (drop_ready_tx (take_s_tx t)); reflexivity.
Qed.

Lemma sstep_R sc s s' e : squiet sc -> e <> SInt -> R s s' -> R2 (sstep sc s e) (sstep sc s' e).
Proof.
  intros Hq Hne HR. destruct e as [|i| |].
  - unfold sstep. rewrite (R_proj s_alive s s' s_alive_fr HR).
    destruct (negb (s_alive s')); [split; [exact HR | reflexivity]|]. cbv zeta.
    assert (H1 : R (s <| woken := false |>) (s' <| woken := false |>)).
    { apply (R_map (fun s => s <| woken := false |>)); [intros; apply set_woken_fr | exact HR]. }
    set (s1 := s <| woken := false |>) in *. set (s1' := s' <| woken := false |>) in *. clearbody s1 s1'.
    destruct (sc_interruptible sc) eqn:Hi.
    + apply wrapper_gen_R; [|apply st_inner_fr | exact H1].
      destruct Hq as [Hq|Hq]; [congruence | exact Hq].
    + pose proof (R_map2 (st_inner sc) s1 s1' (st_inner_fr sc) H1) as [H2 H3].
      destruct (st_inner sc s1) as [s2 r2]. destruct (st_inner sc s1') as [s2' r2'].
      cbn [fst snd] in H2, H3. subst r2'. split; [exact H2 | reflexivity].
  - apply (R_map2 (fun s => sstep sc s (SDrop i))); [intros; apply sstep_drop_fr | exact HR].
  - congruence.
  - apply (R_map2 (fun s => sstep sc s SDropStream)); [intros; apply sstep_dropstream_fr | exact HR].
Qed.

Definition sstrip (evs : list sevent) : list sevent :=
  filter (fun e => match e with SInt => false | _ => true end) evs.

(** the items returned by the polls ([SNext] events) along a run *)
Fixpoint souts_from (sc : scfg) (s : state) (evs : list sevent) : list witem :=
  match evs with
  | [] => []
  | e :: rest =>
    let p := sstep sc s e in
    match e with SNext => [snd p] | _ => [] end ++ souts_from sc (fst p) rest
  end.
Definition souts (sc : scfg) (evs : list sevent) : list witem := souts_from sc (sinit sc) evs.

Lemma ssteps_R sc : squiet sc ->
  forall evs s s', R s s' ->
  R (fold_left (fun s e => fst (sstep sc s e)) evs s) (fold_left (fun s e => fst (sstep sc s e)) (sstrip evs) s') /\
  souts_from sc s evs = souts_from sc s' (sstrip evs).
Proof.
  intros Hq. induction evs as [|e evs IH]; intros s s' HR; [split; [exact HR | reflexivity]|].
  assert (Hstep : e <> SInt ->
    R (fold_left (fun s e => fst (sstep sc s e)) (e :: evs) s)
      (fold_left (fun s e => fst (sstep sc s e)) (e :: sstrip evs) s') /\
    souts_from sc s (e :: evs) = souts_from sc s' (e :: sstrip evs)).
  { intros Hne. destruct (sstep_R sc s s' e Hq Hne HR) as [H1 H2].
    cbn [fold_left souts_from]. destruct (IH _ _ H1) as [H3 H4]. split; [exact H3|].
    rewrite H2, H4. reflexivity. }
  destruct e as [|i| |]; cbn [sstrip filter]; fold (sstrip evs); try (apply Hstep; discriminate).
  cbn [fold_left souts_from sstep fst app]. apply IH, R_int, HR.
Qed.

Lemma R_sinit sc : R (sinit sc) (sinit sc).
Proof. apply R_self. rewrite w_sinit. exact good_wrap0. Qed.

Theorem ignore_srun_equiv sc evs :
  (sc_interruptible sc = false \/ sc_strat sc = SNonInt \/ sc_strat sc = SIgnore) ->
  same_but_wrap (srun sc evs) (srun sc (sstrip evs)).
Proof. intros Hq. unfold srun. apply R_same, (ssteps_R sc Hq evs), R_sinit. Qed.

Theorem ignore_souts_equiv sc evs :
  (sc_interruptible sc = false \/ sc_strat sc = SNonInt \/ sc_strat sc = SIgnore) ->
  souts sc evs = souts sc (sstrip evs).
Proof. intros Hq. unfold souts. apply (ssteps_R sc Hq evs), R_sinit. Qed.

Corollary ignore_same_strace sc evs :
  (sc_interruptible sc = false \/ sc_strat sc = SNonInt \/ sc_strat sc = SIgnore) ->
  trace (srun sc evs) = trace (srun sc (sstrip evs)) /\ processed (srun sc evs) = processed (srun sc (sstrip evs)).
Proof.
  intros Hq. pose proof (ignore_srun_equiv sc evs Hq) as H. split.
  - exact (same_but_wrap_proj trace _ _ trace_fr H).
  - exact (same_but_wrap_proj processed _ _ processed_fr H).
Qed.

(** ** Sanity: the hypothesis on the strategy is needed, and the exemption of [w]/[ipend] is too *)

Example finish_not_transparent :
  let cf := mkCfg 2 [] [0; 0] AForEach false false 0 SFinish true [] false in
  trace (run cf [EInt; EPoll]) = [] /\ trace (run cf (strip [EInt; EPoll])) = [Start 1; Start 0].
Proof. vm_compute. split; reflexivity. Qed.

Example ignore_wrapper_differs :
  let cf := mkCfg 2 [] [0; 0] AForEach false false 0 SIgnore true [] false in
  trace (run cf [EInt; EPoll]) = [Start 1; Start 0] /\
  w (run cf [EInt; EPoll]) <> w (run cf (strip [EInt; EPoll])).
Proof. vm_compute. split; [reflexivity | discriminate]. Qed.

Print Assumptions ignore_run_equiv.
Print Assumptions ignore_same_trace.
Print Assumptions ignore_srun_equiv.
Print Assumptions ignore_souts_equiv.
Print Assumptions ignore_same_strace.
