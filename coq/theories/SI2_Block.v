(** * SI2_Block.v — the block-level actions of the scheduler (and the completion event) preserve the
    second invariant [Inv2]. *)
From FG Require Import Dag Builder Sched DagFacts EdgeFacts RankFacts BuilderFacts TopoFacts
     SchedInv SchedInv2 SI_Queuer SI_Block SI_Step SafetyFacts.
From RecordUpdate Require Import RecordSet.
Import RecordSetNotations.
From Coq Require Import Permutation.

(** ** Lists *)

Lemma app_prefix_snoc {A} (T : list A) (e : A) T0 T1 :
  T ++ [e] = T0 ++ T1 -> (T1 = [] /\ T0 = T ++ [e]) \/ exists T1', T = T0 ++ T1'.
Proof.
  destruct T1 as [|z T1 _] using rev_ind; intros H.
  - left. rewrite app_nil_r in H. auto.
  - right. rewrite app_assoc in H. apply app_inj_tail in H. destruct H as [H _]. exists T1. exact H.
Qed.

Lemma filter_all {A} (f : A -> bool) l : (forall x, In x l -> f x = true) -> filter f l = l.
Proof.
  induction l as [|a l IH]; intros H; [reflexivity|]. simpl.
  rewrite (H a (or_introl eq_refl)). rewrite IH; [reflexivity|]. intros x Hx. apply H. right. exact Hx.
Qed.

Lemma flat_map_filter_nil {A B} (g : A -> list B) (f : A -> bool) l :
  (forall x, In x l -> f x = false -> g x = []) -> flat_map g (filter f l) = flat_map g l.
Proof.
  induction l as [|a l IH]; intros H; [reflexivity|]. simpl.
  assert (IH' : flat_map g (filter f l) = flat_map g l) by (apply IH; intros x Hx; apply H; right; exact Hx).
  destruct (f a) eqn:Hf; simpl; rewrite IH'; [reflexivity|].
  rewrite (H a (or_introl eq_refl) Hf). reflexivity.
Qed.

Lemma mem_iff_eq x a b : (In x a <-> In x b) -> mem x a = mem x b.
Proof.
  intros H. destruct (mem x a) eqn:Ha; destruct (mem x b) eqn:Hb; try reflexivity.
  - apply mem_spec in Ha. apply mem_false in Hb. tauto.
  - apply mem_spec in Hb. apply mem_false in Ha. tauto.
Qed.

Lemma le1_eq {A} (l : list A) a b : length l <= 1 -> In a l -> In b l -> a = b.
Proof.
  destruct l as [|x [|y l]]; simpl; intros Hl Ha Hb.
  - destruct Ha.
  - destruct Ha as [<-|[]]. destruct Hb as [<-|[]]. reflexivity.
  - lia.
Qed.

Definition nek (k x : nat) : bool := negb (x =? k).

(** Popping the head [k] of the run queue when [k] stops being (or never was) a new key. *)
Lemma runq_new_pop k rest NK NK' :
  NoDup (k :: rest) -> filter (fun x => mem x NK) (k :: rest) = NK -> NK' = filter (nek k) NK ->
  filter (fun x => mem x NK') rest = NK' /\ mem k NK' = false.
Proof.
  intros Hnd Hf ->. inversion Hnd as [|k' r' Hk Hnd']; subst.
  assert (Hne : forall x, In x rest -> nek k x = true).
  { intros x Hx. unfold nek. apply negb_true_iff, Nat.eqb_neq. intros ->. exact (Hk Hx). }
  split.
  - set (F := filter (fun x => mem x NK) rest) in *.
    assert (HF : forall x, In x F -> nek k x = true).
    { intros x Hx. apply Hne. unfold F in Hx. apply filter_In in Hx. apply Hx. }
    assert (E1 : filter (fun x => mem x (filter (nek k) NK)) rest = F).
    { unfold F. apply filter_ext_in. intros x Hx. apply mem_iff_eq. rewrite filter_In.
      specialize (Hne x Hx). tauto. }
    rewrite E1. cbn [filter] in Hf. fold F in Hf.
    destruct (mem k NK); rewrite <- Hf.
    + cbn [filter]. unfold nek at 1. rewrite Nat.eqb_refl. simpl. symmetry. apply filter_all. exact HF.
    + symmetry. apply filter_all. exact HF.
  - apply mem_false. intros Hin. apply filter_In in Hin. destruct Hin as [_ Hin].
    unfold nek in Hin. rewrite Nat.eqb_refl in Hin. discriminate.
Qed.

(** ** Member lists *)

Lemma key_unique ms a b : NoDup (map m_key ms) -> In a ms -> In b ms -> m_key a = m_key b -> a = b.
Proof.
  induction ms as [|c ms IH]; simpl; intros Hnd Ha Hb E; [destruct Ha|].
  inversion Hnd as [|x l Hx Hnd']; subst. destruct Ha as [->|Ha]; destruct Hb as [->|Hb]; auto.
  - exfalso. apply Hx. rewrite E. apply in_map. exact Hb.
  - exfalso. apply Hx. rewrite <- E. apply in_map. exact Ha.
Qed.

Lemma in_new_keys ms k : In k (new_keys ms) <-> exists m, In m ms /\ m_key m = k /\ m_st m = MNew.
Proof.
  unfold new_keys. rewrite in_flat_map. split.
  - intros [m [Hm Hx]]. exists m. destruct (m_st m); [|destruct Hx]. destruct Hx as [<-|[]]. auto.
  - intros [m [Hm [Hk Hs]]]. exists m. split; [exact Hm|]. rewrite Hs. left. exact Hk.
Qed.

Lemma new_keys_filter_keep k ms : new_keys (filter (keep k) ms) = filter (nek k) (new_keys ms).
Proof.
  induction ms as [|a ms IH]; [reflexivity|].
  change (new_keys (a :: ms)) with ((match m_st a with MNew => [m_key a] | MWait => [] end) ++ new_keys ms).
  rewrite filter_app, <- IH. cbn [filter]. unfold keep at 1. unfold nek.
  destruct (m_key a =? k) eqn:E; simpl.
  - destruct (m_st a); simpl; [rewrite E|]; reflexivity.
  - change (new_keys (a :: filter (keep k) ms))
      with ((match m_st a with MNew => [m_key a] | MWait => [] end) ++ new_keys (filter (keep k) ms)).
    destruct (m_st a); simpl; [rewrite E|]; reflexivity.
Qed.

Lemma new_keys_to_wait k ms : new_keys (map (to_wait k) ms) = filter (nek k) (new_keys ms).
Proof.
  induction ms as [|a ms IH]; [reflexivity|].
  change (new_keys (a :: ms)) with ((match m_st a with MNew => [m_key a] | MWait => [] end) ++ new_keys ms).
  rewrite filter_app, <- IH. cbn [map].
  change (new_keys (to_wait k a :: map (to_wait k) ms))
    with ((match m_st (to_wait k a) with MNew => [m_key (to_wait k a)] | MWait => [] end) ++ new_keys (map (to_wait k) ms)).
  f_equal. unfold to_wait, nek. destruct (m_key a =? k) eqn:E; simpl.
  - destruct (m_st a); simpl; [rewrite E|]; reflexivity.
  - destruct (m_st a); simpl; [rewrite E|]; reflexivity.
Qed.

Lemma to_wait_int k m : m_int (to_wait k m) = m_int m.
Proof. unfold to_wait. destruct (m_key m =? k); reflexivity. Qed.

Lemma map_key_to_wait k ms : map m_key (map (to_wait k) ms) = map m_key ms.
Proof. rewrite map_map. apply map_ext. intros a. apply to_wait_key. Qed.

Lemma to_wait_other k ms : ~ In k (map m_key ms) -> map (to_wait k) ms = ms.
Proof.
  induction ms as [|a ms IH]; intros H; [reflexivity|]. simpl.
  rewrite IH by (intros Hin; apply H; right; exact Hin).
  unfold to_wait. destruct (m_key a =? k) eqn:E; [|reflexivity].
  apply Nat.eqb_eq in E. exfalso. apply H. left. exact E.
Qed.

(** The member whose key heads [new_keys] contributes the head of [new_ids]. *)
Lemma new_ids_head ms k id m tl :
  NoDup (map m_key ms) -> In m ms -> m_key m = k -> m_id m = Some id -> m_st m = MNew ->
  new_keys ms = k :: tl ->
  new_ids ms = id :: new_ids (map (to_wait k) ms).
Proof.
  induction ms as [|a ms IH]; intros Hnd Hm Hk Hi Hs Hnk; [destruct Hm|].
  inversion Hnd as [|x l Hx Hnd']; subst.
  change (new_keys (a :: ms)) with ((match m_st a with MNew => [m_key a] | MWait => [] end) ++ new_keys ms) in Hnk.
  change (new_ids (a :: ms)) with ((match m_st a, m_id a with MNew, Some i => [i] | _, _ => [] end) ++ new_ids ms).
  cbn [map].
  change (new_ids (to_wait (m_key m) a :: map (to_wait (m_key m)) ms))
    with ((match m_st (to_wait (m_key m) a), m_id (to_wait (m_key m) a) with MNew, Some i => [i] | _, _ => [] end)
          ++ new_ids (map (to_wait (m_key m)) ms)).
  destruct (m_st a) eqn:Hsa.
  - simpl in Hnk. inversion Hnk as [[Hka Htl]].
    assert (a = m).
    { apply (key_unique (a :: ms)); [exact Hnd | left; reflexivity | exact Hm | exact Hka]. }
    subst a. rewrite Hi. unfold to_wait at 1 2. rewrite Nat.eqb_refl. simpl.
    rewrite to_wait_other by exact Hx. reflexivity.
  - simpl in Hnk. destruct Hm as [->|Hm]; [congruence|].
    assert (Hw : m_st (to_wait (m_key m) a) = MWait).
    { unfold to_wait. destruct (m_key a =? m_key m); [reflexivity | exact Hsa]. }
    rewrite Hw. simpl. apply (IH Hnd' Hm eq_refl Hi Hs Hnk).
Qed.

(** ** The invariant with the run queue held apart *)

Definition Inv2R (cf : cfg) (s : state) (R : list nat) : Prop := Inv2 cf (s <| runq := R |>).

Lemma set_runq_self s : s <| runq := runq s |> = s.
Proof. destruct s; reflexivity. Qed.

Lemma Inv2R_of cf s R : runq s = R -> Inv2 cf s -> Inv2R cf s R.
Proof. intros <- H. unfold Inv2R. rewrite set_runq_self. exact H. Qed.

Lemma Inv2R_to cf s R : runq s = R -> Inv2R cf s R -> Inv2 cf s.
Proof. intros <- H. unfold Inv2R in H. rewrite set_runq_self in H. exact H. Qed.

Lemma Inv2R_popped cf s k rest : runq s = k :: rest -> Inv2 cf s -> Inv2R cf (s <| runq := rest |>) (k :: rest).
Proof.
  intros Hr H. unfold Inv2R.
  replace (s <| runq := rest |> <| runq := k :: rest |>) with s; [exact H|].
  destruct s; simpl in *; subst; reflexivity.
Qed.

Lemma inv2_pop cf s k rest R0 :
  R0 = k :: rest ->
  Inv2R cf s R0 -> ~ In k (map fst (completed s)) -> ~ In k (new_keys (members s)) -> Inv2R cf s rest.
Proof.
  unfold Inv2R. intros HR H Hc Hn. destruct H. simpl in *. constructor; simpl; try assumption.
  - subst R0. inversion x_runq_nodup; assumption.
  - intros x Hx. apply x_runq_keys. subst R0. right. exact Hx.
  - subst R0. destruct (runq_new_pop k rest _ _ x_runq_nodup x_runq_new eq_refl) as [H1 _].
    rewrite (filter_all (nek k) (new_keys (members s))) in H1; [exact H1|].
    intros x Hx. unfold nek. apply negb_true_iff, Nat.eqb_neq. intros ->. exact (Hn Hx).
  - intros i Hi. specialize (x_completed_runq i Hi). subst R0. destruct x_completed_runq as [<-|H]; [contradiction | exact H].
Qed.

(** ** Counting *)

Lemma inflight_room cf s : Inv cf s ->
  length (starts (trace s)) <= length (ends (trace s)) + length (wait_ids (members s)).
Proof.
  intros H.
  assert (H1 : length (starts (trace s)) <= length (g_finished s ++ wait_ids (members s))).
  { apply NoDup_incl_length; [apply (trace_starts_nodup (c_es cf)); apply (v_trace _ _ H)|].
    intros x Hx. apply in_or_app. apply (v_started _ _ H). exact Hx. }
  assert (H2 : length (g_finished s) <= length (ends (trace s))).
  { apply NoDup_incl_length; [apply (v_fin_nodup _ _ H)|]. intros x Hx. apply (v_fin_ended _ _ H). exact Hx. }
  rewrite app_length in H1. lia.
Qed.

Lemma tfold_limit cf : is_tfold (c_api cf) = true -> eff_limit cf = 1.
Proof. unfold eff_limit, is_tfold. destruct (c_api cf); try discriminate. reflexivity. Qed.

Lemma tfold_single cf s a b : is_tfold (c_api cf) = true -> Inv cf s ->
  In a (wait_ids (members s) ++ new_ids (members s)) -> In b (wait_ids (members s) ++ new_ids (members s)) -> a = b.
Proof.
  intros Ht H. apply le1_eq. pose proof (v_limit _ _ H) as Hl. rewrite (tfold_limit _ Ht) in Hl.
  specialize (Hl ltac:(discriminate)). rewrite members_count in Hl. rewrite app_length. lia.
Qed.

(** ** First poll of a block *)

Lemma inv2_start cf s m id rest R0 :
  R0 = id :: rest ->
  Inv cf s -> Inv2R cf s R0 -> In m (members s) -> m_key m = id -> m_id m = Some id -> m_st m = MNew ->
  Inv2R cf (s <| trace := trace s ++ [Start id] |> <| members := map (to_wait id) (members s) |>) R0.
Proof.
  unfold Inv2R. intros HR Hinv H Hm Hk Hi Hs.
  assert (Hnew : In id (new_ids (members s))) by (apply in_new_ids; exists m; auto).
  assert (Hnw : ~ In id (wait_ids (members s))) by (apply (Inv_new_not_wait _ _ _ Hinv Hnew)).
  assert (Hnk : In id (new_keys (members s))) by (apply in_new_keys; exists m; auto).
  destruct H. simpl in *.
  assert (Hhd : exists tl, new_keys (members s) = id :: tl).
  { rewrite HR in x_runq_new. cbn [filter] in x_runq_new. apply mem_spec in Hnk. rewrite Hnk in x_runq_new.
    eexists. symmetry. exact x_runq_new. }
  assert (Hpop : filter (fun x => mem x (filter (nek id) (new_keys (members s)))) rest = filter (nek id) (new_keys (members s))
                 /\ mem id (filter (nek id) (new_keys (members s))) = false).
  { apply (runq_new_pop id rest (new_keys (members s))); [rewrite <- HR; assumption | rewrite <- HR; assumption | reflexivity]. }
  constructor; simpl; try assumption.
  - rewrite starts_snoc_start, <- app_assoc. simpl. destruct Hhd as [tl Htl].
    rewrite <- (new_ids_head (members s) id id m tl); assumption.
  - rewrite map_key_to_wait. assumption.
  - intros x Hx. rewrite map_key_to_wait. apply x_runq_keys. exact Hx.
  - rewrite new_keys_to_wait. rewrite HR. cbn [filter]. destruct Hpop as [P1 P2]. rewrite P2. exact P1.
  - intros Hf. destruct (x_fin_members Hf) as [Hmem _]. rewrite Hmem in Hm. destruct Hm.
  - intros Hl T0 T1 Heq. apply app_prefix_snoc in Heq. destruct Heq as [[_ ->]|[T1' Heq]].
    + rewrite starts_snoc_start, ends_snoc_start, app_length. simpl.
      pose proof (inflight_room _ _ Hinv) as Hroom. pose proof (v_limit _ _ Hinv Hl) as Hlim.
      rewrite members_count in Hlim.
      assert (1 <= length (new_ids (members s))) by (destruct (new_ids (members s)); [destruct Hnew | simpl; lia]).
      lia.
    + apply (x_inflight Hl T0 T1'). exact Heq.
  - intros x Hx. rewrite failed_snoc_start. apply x_errs_failed. exact Hx.
  - intros Ht x Hx. rewrite failed_snoc_start. apply x_errs_complete; assumption.
  - intros i He. rewrite (Inv_mem_serr _ _ _ Hinv Hm) in He. discriminate.
  - intros Ht He. rewrite failed_snoc_start. destruct (x_tfold_failed Ht He) as [Hf|(i & T1 & _ & _ & Hc)]; [left; exact Hf|].
    exfalso. destruct (v_completed _ _ Hinv i false Hc) as [Hw _].
    assert (i = id).
    { apply (tfold_single cf s); [exact Ht | exact Hinv | apply in_or_app; left; exact Hw | apply in_or_app; right; exact Hnew]. }
    subst i. exact (Hnw Hw).
  - intros Hw. destruct (x_ian Hw) as [Htx|[m0 [Hm0 Hint]]]; [left; exact Htx|]. right.
    exists (to_wait id m0). split; [apply in_map; exact Hm0 | rewrite to_wait_int; exact Hint].
  - intros m0 Hm0 Hint. apply in_map_iff in Hm0. destruct Hm0 as [m1 [<- Hm1]]. rewrite to_wait_int in Hint.
    apply (x_int_ian m1); assumption.
  - intros m0 Hm0 Hid. apply in_map_iff in Hm0. destruct Hm0 as [m1 [<- Hm1]]. rewrite to_wait_id in Hid.
    rewrite to_wait_int. apply (x_none_int m1); assumption.
  - rewrite failed_snoc_start. assumption.
Qed.

(** ** A user future resolves *)

Lemma inv2_complete cf s i ok R :
  Inv cf s -> Inv2R cf s R -> In i (wait_ids (members s)) -> ~ In i (map fst (completed s)) -> In i R ->
  Inv2R cf (complete s i ok) R.
Proof.
  unfold Inv2R, complete. intros Hinv H Hw Hnc HiR.
  assert (Hnf : ~ In i (g_finished s)) by (intros Hf; exact (v_fin_wait _ _ Hinv i Hf Hw)).
  assert (Hmem : exists m, In m (members s)).
  { apply in_wait_ids in Hw. destruct Hw as [m [Hm _]]. exists m. exact Hm. }
  destruct Hmem as [m0 Hm0].
  destruct H. simpl in *. constructor; simpl; try assumption.
  - rewrite starts_snoc_end. assumption.
  - intros j Hj. rewrite map_app in Hj. apply in_app_or in Hj. destruct Hj as [Hj|[<-|[]]]; [apply x_completed_runq; exact Hj | exact HiR].
  - intros Hf. destruct (x_fin_members Hf) as [Hmem _]. rewrite Hmem in Hm0. destruct Hm0.
  - intros Hl T0 T1 Heq. apply app_prefix_snoc in Heq. destruct Heq as [[_ ->]|[T1' Heq]].
    + rewrite starts_snoc_end, ends_snoc_end, app_length. simpl.
      pose proof (x_inflight Hl (trace s) [] (eq_sym (app_nil_r _))). lia.
    + apply (x_inflight Hl T0 T1'). exact Heq.
  - intros x Hx. rewrite failed_app. apply in_or_app. left. apply x_errs_failed. exact Hx.
  - intros Ht x Hx Hf. rewrite failed_snoc_end in Hf. apply in_app_or in Hf. destruct Hf as [Hf|Hf].
    + apply x_errs_complete; assumption.
    + destruct ok; [destruct Hf|]. destruct Hf as [<-|[]]. contradiction.
  - intros j He. rewrite (Inv_mem_serr _ _ _ Hinv Hm0) in He. discriminate.
  - intros Ht He. rewrite failed_snoc_end.
    assert (Hf0 : failed (trace s) = []).
    { destruct (x_tfold_failed Ht He) as [Hf|(j & T1 & _ & _ & Hc)]; [exact Hf|]. exfalso.
      destruct (v_completed _ _ Hinv j false Hc) as [Hwj _].
      assert (j = i).
      { apply (tfold_single cf s); [exact Ht | exact Hinv | apply in_or_app; left; exact Hwj | apply in_or_app; left; exact Hw]. }
      subst j. apply Hnc. apply in_map_iff. exists (i, false). auto. }
    destruct ok.
    + left. rewrite Hf0. reflexivity.
    + right. exists i, (trace s). split; [reflexivity|]. split; [exact Hf0|]. apply in_or_app. right. left. reflexivity.
  - intros Htx. destruct (x_stx_why Htx) as [A|[A|[A|A]]]; auto. right. right. left.
    rewrite failed_app. intros Hn. apply app_eq_nil in Hn. destruct Hn as [Hn _]. exact (A Hn).
Qed.

Lemma Inv2_set_woken cf s b : Inv2 cf s -> Inv2 cf (s <| woken := b |>).
Proof. intros H. destruct H. constructor; simpl; assumption. Qed.

Lemma wait_not_new_key cf s i : Inv cf s -> NoDup (map m_key (members s)) ->
  In i (wait_ids (members s)) -> In i (map m_key (members s)) /\ ~ In i (new_keys (members s)).
Proof.
  intros Hinv Hnd Hw. apply in_wait_ids in Hw. destruct Hw as [m [Hm [Hi Hs]]].
  assert (Hk : m_key m = i).
  { pose proof (v_keys _ _ Hinv m Hm) as H. rewrite Hi in H. exact H. }
  split; [rewrite <- Hk; apply in_map; exact Hm|].
  intros Hn. apply in_new_keys in Hn. destruct Hn as [m' [Hm' [Hk' Hs']]].
  assert (m' = m) by (apply (key_unique (members s)); [exact Hnd | exact Hm' | exact Hm | congruence]).
  subst m'. congruence.
Qed.

Lemma inv2_runq_ext cf s i :
  Inv cf s -> Inv2 cf s -> In i (wait_ids (members s)) ->
  Inv2R cf s (if mem i (runq s) then runq s else runq s ++ [i]).
Proof.
  intros Hinv H Hw. destruct (mem i (runq s)) eqn:Hmi; [apply Inv2R_of; [reflexivity | exact H]|].
  apply mem_false in Hmi.
  destruct (wait_not_new_key cf s i Hinv (x_keys_nodup _ _ H) Hw) as [Hkey Hnn].
  unfold Inv2R. destruct H. constructor; simpl; try assumption.
  - apply NoDup_app_intro; [assumption | constructor; [intros []|constructor] |].
    intros x Hx [<-|[]]. exact (Hmi Hx).
  - intros x Hx. apply in_app_or in Hx. destruct Hx as [Hx|[<-|[]]]; [apply x_runq_keys; exact Hx | exact Hkey].
  - rewrite filter_app. cbn [filter]. apply mem_false in Hnn. rewrite Hnn, app_nil_r. assumption.
  - intros j Hj. apply in_or_app. left. apply x_completed_runq. exact Hj.
Qed.

(** The [ECmp] event of [Sched.step]. *)
Lemma inv2_ecmp cf s i ok :
  cfg_ok cf -> Inv cf s -> Inv2 cf s ->
  is_waiting s i = true -> is_none (lookup i (completed s)) = true ->
  Inv2 cf ((complete s i ok) <| runq := if mem i (runq s) then runq s else runq s ++ [i] |> <| woken := true |>).
Proof.
  intros _ Hinv H Hw Hn. apply is_waiting_spec in Hw. apply lookup_none_notin in Hn.
  apply Inv2_set_woken. apply (inv2_complete cf s i ok _ Hinv (inv2_runq_ext cf s i Hinv H Hw) Hw Hn).
  destruct (mem i (runq s)) eqn:Hmi; [apply mem_spec; exact Hmi | apply in_or_app; right; left; reflexivity].
Qed.

(** ** Releasing the done sender *)

Lemma take_if_shape (c : bool) s : senders (done s) = (if s_tx s then 1 else 0) ->
  exists d wk, (if c then take_s_tx s else s) = s <| s_tx := s_tx s && negb c |> <| done := d |> <| woken := wk |> /\
    buf d = buf (done s) /\ cap d = cap (done s) /\ rx_open d = rx_open (done s) /\
    senders d = (if s_tx s && negb c then 1 else 0).
Proof.
  intros Hs. destruct c.
  - unfold take_s_tx. destruct (s_tx s) eqn:Htx.
    + unfold drop_sender. rewrite Hs. simpl. eexists _, _. split; [reflexivity|]. simpl. auto.
    + exists (done s), (woken s). simpl. split; [destruct s; simpl in *; subst; reflexivity | auto].
  - exists (done s), (woken s). rewrite andb_true_r. split; [destruct s; reflexivity|]. auto.
Qed.

Lemma keep_spec k m : keep k m = true <-> m_key m <> k.
Proof. unfold keep. rewrite negb_true_iff, Nat.eqb_neq. tauto. Qed.

Lemma in_keys_filter_keep k ms x : In x (map m_key ms) -> x <> k -> In x (map m_key (filter (keep k) ms)).
Proof.
  intros Hx Hne. apply in_map_iff in Hx. destruct Hx as [m [Hk Hm]]. apply in_map_iff. exists m.
  split; [exact Hk|]. apply filter_In. split; [exact Hm|]. apply keep_spec. congruence.
Qed.

Lemma new_ids_filter_keep ms m k :
  NoDup (map m_key ms) -> In m ms -> m_key m = k -> (m_st m = MWait \/ m_id m = None) ->
  new_ids (filter (keep k) ms) = new_ids ms.
Proof.
  intros Hnd Hm Hk Hc. unfold new_ids. apply flat_map_filter_nil. intros x Hx Hf.
  assert (x = m).
  { apply (key_unique ms); [exact Hnd | exact Hx | exact Hm|]. unfold keep in Hf.
    apply negb_false_iff, Nat.eqb_eq in Hf. congruence. }
  subst x. destruct Hc as [-> | ->]; [reflexivity | destruct (m_st m); reflexivity].
Qed.

(** ** A block without a function *)

Lemma inv2_remove_none cf s m k rest R0 :
  R0 = k :: rest ->
  Inv cf s -> Inv2R cf s R0 -> In m (members s) -> m_key m = k -> m_id m = None -> m_st m = MNew ->
  Inv2R cf (remove_member (if m_int m then take_s_tx s else s) k) rest.
Proof.
  unfold Inv2R. intros HR Hinv H Hm Hk Hid Hst.
  assert (Hint : m_int m = true) by (apply (x_none_int _ _ H m Hm Hid)).
  assert (Hkn : k = c_n cf).
  { pose proof (v_keys _ _ Hinv m Hm) as Hv. rewrite Hid in Hv. congruence. }
  destruct (take_if_shape (m_int m) s (x_senders_d _ _ H)) as (d & wk & -> & Hb & Hc & Ho & Hsd).
  rewrite Hint, andb_false_r in *. unfold remove_member.
  change (fun m0 : member => negb (m_key m0 =? k)) with (keep k).
  destruct H. simpl in *.
  assert (Hpop : filter (fun x => mem x (filter (nek k) (new_keys (members s)))) rest = filter (nek k) (new_keys (members s))
                 /\ mem k (filter (nek k) (new_keys (members s))) = false).
  { apply (runq_new_pop k rest (new_keys (members s))); [rewrite <- HR; assumption | rewrite <- HR; assumption | reflexivity]. }
  constructor; simpl; try assumption.
  - rewrite (new_ids_filter_keep (members s) m k); auto.
  - apply NoDup_map_filter. assumption.
  - subst R0. inversion x_runq_nodup; assumption.
  - intros x Hx. subst R0. inversion x_runq_nodup as [|a l Hnin Hnd']; subst.
    apply in_keys_filter_keep; [apply x_runq_keys; right; exact Hx | intros ->; exact (Hnin Hx)].
  - rewrite new_keys_filter_keep. apply Hpop.
  - intros i Hi. pose proof (x_completed_runq i Hi) as HiR. subst R0. destruct HiR as [<-|HiR]; [|exact HiR].
    exfalso. apply in_map_iff in Hi. destruct Hi as [[j b] [Hj Hin]]. simpl in Hj. subst j.
    destruct (v_completed _ _ Hinv _ _ Hin) as [Hw _].
    pose proof (Inv_id_lt _ _ _ Hinv (or_introl Hw)). lia.
  - intros Hf. destruct (x_fin_members Hf) as [Hmem _]. rewrite Hmem in Hm. destruct Hm.
  - rewrite Ho. assumption.
  - reflexivity.
  - reflexivity.
  - reflexivity.
  - intros _. left. reflexivity.
  - intros m0 Hm0. apply filter_In in Hm0. apply x_int_ian. apply Hm0.
  - intros m0 Hm0. apply filter_In in Hm0. apply x_none_int. apply Hm0.
  - discriminate.
  - intros _. right. left. apply (x_int_ian m Hm Hint).
Qed.

(** ** The end of a block, with the flags *)

Definition fails_tfe (cf : cfg) (ok : bool) : bool := negb ok && is_tfe (c_api cf).

Lemma fb_fail_shape2 cf s id ok : length (errs s) < Nat.max 1 (c_n cf) ->
  senders (done s) = (if s_tx s then 1 else 0) ->
  exists d wk,
    fb_fail cf s id ok = s <| errs := if fails_tfe cf ok then errs s ++ [id] else errs s |>
                           <| s_tx := s_tx s && negb (fails_tfe cf ok) |> <| done := d |> <| woken := wk |> /\
    buf d = buf (done s) /\ cap d = cap (done s) /\ rx_open d = rx_open (done s) /\
    senders d = (if s_tx s && negb (fails_tfe cf ok) then 1 else 0).
Proof.
  intros Hl Hs. unfold fb_fail.
  change (negb ok && match c_api cf with ATryForEach => true | _ => false end) with (fails_tfe cf ok).
  destruct (fails_tfe cf ok).
  - destruct (Nat.max 1 (c_n cf) <=? length (errs s)) eqn:Hle; [apply Nat.leb_le in Hle; lia|].
    set (s1 := s <| errs := errs s ++ [id] |>).
    assert (Hs1 : senders (done s1) = (if s_tx s1 then 1 else 0)) by exact Hs.
    destruct (take_if_shape true s1 Hs1) as (d & wk & He & Hb & Hc & Ho & Hsd).
    cbv iota in He. exists d, wk. split; [exact He|]. unfold s1 in *. simpl in *. auto.
  - exists (done s), (woken s). split; [destruct s; simpl; rewrite andb_true_r; reflexivity|].
    simpl. rewrite andb_true_r. auto.
Qed.

Lemma fb_send_shape2 s id : length (buf (done s)) < cap (done s) ->
  exists c wk DS,
    fb_send s id = s <| done := c |> <| woken := wk |> <| g_done_sent := DS |> /\
    cap c = cap (done s) /\ rx_open c = rx_open (done s) /\ senders c = senders (done s) /\
    ((DS = g_done_sent s /\ buf c = buf (done s) /\ (s_tx s = true -> rx_open (done s) = false)) \/
     (DS = g_done_sent s ++ [id] /\ buf c = buf (done s) ++ [id] /\ s_tx s = true)).
Proof.
  intros Hl. unfold fb_send. destruct (s_tx s) eqn:Htx.
  - unfold done_send. destruct (try_send (done s) id) as [[c r] wk] eqn:Hts. destruct r.
    + destruct (try_send_ok _ _ _ _ Hts) as (Hb & Hc & Ho1 & Ho2 & Hsd & _).
      exists c, (woken s || wk), (g_done_sent s ++ [id]). split; [reflexivity|].
      split; [exact Hc|]. split; [congruence|]. split; [exact Hsd|]. right. auto.
    + exfalso. unfold try_send in Hts. destruct (rx_open (done s)); simpl in Hts; [|discriminate].
      destruct (cap (done s) <=? length (buf (done s))) eqn:Hle; [|discriminate]. apply Nat.leb_le in Hle. lia.
    + exists (done s), (woken s), (g_done_sent s). split; [destruct s; reflexivity|].
      split; [reflexivity|]. split; [reflexivity|]. split; [reflexivity|]. left. split; [reflexivity|]. split; [reflexivity|].
      intros _. unfold try_send in Hts. destruct (rx_open (done s)); simpl in Hts; [|reflexivity].
      destruct (cap (done s) <=? length (buf (done s))); discriminate.
  - exists (done s), (woken s), (g_done_sent s). split; [destruct s; reflexivity|].
    split; [reflexivity|]. split; [reflexivity|]. split; [reflexivity|]. left. split; [reflexivity|]. split; [reflexivity|].
    discriminate.
Qed.

Lemma fb_tail_shape2 mi s id : 1 <= s_rem s -> senders (done s) = (if s_tx s then 1 else 0) ->
  exists r d wk, s_rem s = S r /\
    fb_tail mi s id = s <| s_rem := r |> <| s_tx := s_tx s && negb (r =? 0) && negb mi |> <| done := d |> <| woken := wk |>
                        <| g_finished := g_finished s ++ [id] |> /\
    buf d = buf (done s) /\ cap d = cap (done s) /\ rx_open d = rx_open (done s) /\
    senders d = (if s_tx s && negb (r =? 0) && negb mi then 1 else 0).
Proof.
  intros Hr Hs. unfold fb_tail. destruct (s_rem s) as [|r] eqn:Hrem; [lia|].
  set (s1 := s <| s_rem := r |>). change (s_rem s1 =? 0) with (r =? 0).
  destruct (take_if_shape (r =? 0) s1 Hs) as (d1 & wk1 & He1 & Hb1 & Hc1 & Ho1 & Hsd1).
  rewrite He1. clear He1.
  set (s2 := s1 <| s_tx := s_tx s1 && negb (r =? 0) |> <| done := d1 |> <| woken := wk1 |>).
  destruct (take_if_shape mi s2 Hsd1) as (d2 & wk2 & He2 & Hb2 & Hc2 & Ho2 & Hsd2).
  cbv zeta. rewrite He2. clear He2. exists r, d2, wk2. split; [reflexivity|]. split; [reflexivity|].
  unfold s2, s1 in *. simpl in *. repeat split; congruence.
Qed.

Definition fails_tfold (cf : cfg) (ok : bool) : bool := negb ok && is_tfold (c_api cf).

Lemma finish_block_shape cf s m id ok :
  1 <= s_rem s -> length (errs s) < Nat.max 1 (c_n cf) ->
  length (buf (done s)) < cap (done s) -> senders (done s) = (if s_tx s then 1 else 0) ->
  (fails_tfold cf ok = true /\
   exists d wk, finish_block cf s m id ok =
     s <| members := filter (keep (m_key m)) (members s) |> <| s_tx := false |> <| done := d |> <| woken := wk |>
       <| ready := drop_rx (ready s) |> <| s_alive := false |> <| s_err := Some id |> <| s_fin := true |>
       <| g_finished := g_finished s ++ [id] |> /\
     buf d = buf (done s) /\ cap d = cap (done s) /\ rx_open d = rx_open (done s) /\ senders d = 0)
  \/
  (fails_tfold cf ok = false /\
   exists r d wk DS, s_rem s = S r /\
     finish_block cf s m id ok =
     s <| members := filter (keep (m_key m)) (members s) |>
       <| errs := if fails_tfe cf ok then errs s ++ [id] else errs s |>
       <| s_tx := s_tx s && negb (fails_tfe cf ok) && negb (r =? 0) && negb (m_int m) |>
       <| done := d |> <| woken := wk |> <| g_done_sent := DS |> <| s_rem := r |>
       <| g_finished := g_finished s ++ [id] |> /\
     cap d = cap (done s) /\ rx_open d = rx_open (done s) /\
     senders d = (if s_tx s && negb (fails_tfe cf ok) && negb (r =? 0) && negb (m_int m) then 1 else 0) /\
     ((DS = g_done_sent s /\ buf d = buf (done s) /\
       (s_tx s && negb (fails_tfe cf ok) = true -> rx_open (done s) = false)) \/
      (DS = g_done_sent s ++ [id] /\ buf d = buf (done s) ++ [id] /\ s_tx s && negb (fails_tfe cf ok) = true))).
Proof.
  intros Hrem Herrs Hdone Hs. rewrite finish_block_unfold. cbv zeta. unfold remove_member.
  change (fun m0 : member => negb (m_key m0 =? m_key m)) with (keep (m_key m)).
  change (negb ok && match c_api cf with ATryFold => true | _ => false end) with (fails_tfold cf ok).
  set (s1 := s <| members := filter (keep (m_key m)) (members s) |>).
  assert (Hs1 : senders (done s1) = (if s_tx s1 then 1 else 0)) by exact Hs.
  destruct (fails_tfold cf ok) eqn:HA.
  - left. split; [reflexivity|].
    destruct (take_if_shape true s1 Hs1) as (d & wk & He & Hb & Hc & Ho & Hsd). cbv iota in He.
    rewrite He. exists d, wk. unfold s1 in *. simpl in *. rewrite andb_false_r in *.
    split; [reflexivity|]. auto.
  - right. split; [reflexivity|].
    assert (Herrs1 : length (errs s1) < Nat.max 1 (c_n cf)) by exact Herrs.
    destruct (fb_fail_shape2 cf s1 id ok Herrs1 Hs1) as (d1 & wk1 & He1 & Hb1 & Hc1 & Ho1 & Hsd1).
    rewrite He1. clear He1.
    set (s2 := s1 <| errs := if fails_tfe cf ok then errs s1 ++ [id] else errs s1 |>
                  <| s_tx := s_tx s1 && negb (fails_tfe cf ok) |> <| done := d1 |> <| woken := wk1 |>).
    assert (Hdone2 : length (buf (done s2)) < cap (done s2)).
    { unfold s2, s1 in *. simpl in *. rewrite Hb1, Hc1. exact Hdone. }
    destruct (fb_send_shape2 s2 id Hdone2) as (d2 & wk2 & DS & He2 & Hc2 & Ho2 & Hsd2 & Hds).
    rewrite He2. clear He2.
    set (s3 := s2 <| done := d2 |> <| woken := wk2 |> <| g_done_sent := DS |>).
    assert (Hrem3 : 1 <= s_rem s3) by exact Hrem.
    assert (Hs3 : senders (done s3) = (if s_tx s3 then 1 else 0)).
    { unfold s3, s2, s1 in *. simpl in *. congruence. }
    destruct (fb_tail_shape2 (m_int m) s3 id Hrem3 Hs3) as (r & d3 & wk3 & Hr & He3 & Hb3 & Hc3 & Ho3 & Hsd3).
    rewrite He3. clear He3. exists r, d3, wk3, DS.
    unfold s3, s2, s1 in *. simpl in *.
    split; [exact Hr|]. split; [reflexivity|]. split; [congruence|]. split; [congruence|]. split; [exact Hsd3|].
    destruct Hds as [(E1 & E2 & E3) | (E1 & E2 & E3)]; [left | right].
    + split; [exact E1|]. split; [congruence|]. intros Htx. rewrite <- Ho1. apply E3. exact Htx.
    + split; [exact E1|]. split; [congruence | exact E3].
Qed.

Lemma wait_member cf s m id : Inv cf s -> NoDup (map m_key (members s)) ->
  In m (members s) -> m_key m = id -> In id (wait_ids (members s)) -> m_id m = Some id /\ m_st m = MWait.
Proof.
  intros Hinv Hnd Hm Hk Hw. apply in_wait_ids in Hw. destruct Hw as [m' [Hm' [Hi Hs]]].
  assert (Hk' : m_key m' = id).
  { pose proof (v_keys _ _ Hinv m' Hm') as H. rewrite Hi in H. exact H. }
  assert (m' = m) by (apply (key_unique (members s)); [exact Hnd | exact Hm' | exact Hm | congruence]).
  subst m'. auto.
Qed.

Lemma inv2_finish cf s m id ok rest R0 :
  R0 = id :: rest ->
  Inv cf s -> Inv2R cf s R0 -> s_fin s = false -> result s = None ->
  In m (members s) -> m_key m = id -> In (id, ok) (completed s) ->
  Inv cf (finish_block cf (s <| completed := remove_key id (completed s) |>) m id ok) ->
  Inv2R cf (finish_block cf (s <| completed := remove_key id (completed s) |>) m id ok) rest /\
  result (finish_block cf (s <| completed := remove_key id (completed s) |>) m id ok) = None /\
  q_fin (finish_block cf (s <| completed := remove_key id (completed s) |>) m id ok) = q_fin s.
Proof.
  unfold Inv2R. intros HR Hinv H Hfin Hres Hm Hk Hc Hinv'.
  destruct (v_completed _ _ Hinv id ok Hc) as [Hw Hend].
  destruct (wait_member cf s m id Hinv (x_keys_nodup _ _ H) Hm Hk Hw) as [Hid Hst].
  pose proof (Inv_room _ _ _ Hinv Hw) as Hroom.
  assert (Hserr : s_err s = None) by (exact (Inv_mem_serr _ _ _ Hinv Hm)).
  assert (Hnf : ~ In id (g_finished s)) by (intros Hf; exact (v_fin_wait _ _ Hinv id Hf Hw)).
  set (s0 := s <| completed := remove_key id (completed s) |>) in *.
  assert (P1 : 1 <= s_rem s0).
  { change (1 <= s_rem s). pose proof (v_srem _ _ Hinv Hserr). lia. }
  assert (P2 : length (errs s0) < Nat.max 1 (c_n cf)).
  { change (length (errs s) < Nat.max 1 (c_n cf)). destruct (v_errs _ _ Hinv) as [Hnd Hin].
    pose proof (NoDup_incl_length Hnd Hin). lia. }
  assert (P3 : length (buf (done s0)) < cap (done s0)).
  { change (length (buf (done s)) < cap (done s)). rewrite (v_cap_d _ _ Hinv).
    pose proof (NoDup_incl_length (v_ds_nodup _ _ Hinv) (v_ds_fin _ _ Hinv)) as Hle.
    rewrite (v_done _ _ Hinv), app_length in Hle. lia. }
  assert (P4 : senders (done s0) = (if s_tx s0 then 1 else 0)) by (exact (x_senders_d _ _ H)).
  assert (Hnids : new_ids (filter (keep id) (members s)) = new_ids (members s)).
  { apply (new_ids_filter_keep (members s) m id); auto. apply (x_keys_nodup _ _ H). }
  assert (Hfl : ok = false -> In id (failed (trace s))).
  { intros ->. apply in_failed. exact Hend. }
  destruct (finish_block_shape cf s0 m id ok P1 P2 P3 P4)
    as [[HA (d & wk & He & Hb & Hcp & Ho & Hsd)] | [HA (r & d & wk & DS & Hr & He & Hcp & Ho & Hsd & Hds)]];
    rewrite He in *; clear He; rewrite Hk in *; unfold s0 in *; clear s0; clear P1 P2 P3 P4;
    (split; [|split; [exact Hres | reflexivity]]); destruct H; simpl in *.
  all: assert (Hpop : filter (fun x => mem x (filter (nek id) (new_keys (members s)))) rest = filter (nek id) (new_keys (members s))
                   /\ mem id (filter (nek id) (new_keys (members s))) = false)
         by (apply (runq_new_pop id rest (new_keys (members s))); [rewrite <- HR; assumption | rewrite <- HR; assumption | reflexivity]).
  all: assert (G2 : NoDup (map m_key (filter (keep id) (members s)))) by (apply NoDup_map_filter; assumption).
  all: assert (G3 : NoDup rest) by (subst R0; inversion x_runq_nodup; assumption).
  all: assert (G4 : forall k, In k rest -> In k (map m_key (filter (keep id) (members s))))
         by (intros x Hx; subst R0; inversion x_runq_nodup as [|a l Hnin Hnd']; subst;
             apply in_keys_filter_keep; [apply x_runq_keys; right; exact Hx | intros ->; exact (Hnin Hx)]).
  all: assert (G5 : filter (fun k => mem k (new_keys (filter (keep id) (members s)))) rest = new_keys (filter (keep id) (members s)))
         by (rewrite new_keys_filter_keep; apply Hpop).
  all: assert (G6 : forall i, In i (map fst (remove_key id (completed s))) -> In i rest)
         by (intros i Hi; apply in_keys_remove_key in Hi; destruct Hi as [Hi Hne];
             pose proof (x_completed_runq i Hi) as HiR; subst R0; destruct HiR as [<-|HiR]; [congruence | exact HiR]).
  all: assert (G7 : forall m0, In m0 (filter (keep id) (members s)) -> m_int m0 = true -> w_ian (w s) = true)
         by (intros m0 Hm0; apply filter_In in Hm0; apply x_int_ian; apply Hm0).
  all: assert (G8 : forall m0, In m0 (filter (keep id) (members s)) -> m_id m0 = None -> m_int m0 = true)
         by (intros m0 Hm0; apply filter_In in Hm0; apply x_none_int; apply Hm0).
  all: assert (G9 : processed s = starts (trace s) ++ new_ids (filter (keep id) (members s)))
         by (rewrite Hnids; assumption).
  - (* the TryFold early exit *)
    assert (Hmem' : filter (keep id) (members s) = []).
    { destruct (v_serr _ _ Hinv') as [Hm' _]; [simpl; discriminate | exact Hm']. }
    assert (Hcomp' : remove_key id (completed s) = []).
    { destruct (remove_key id (completed s)) as [|[j b] l] eqn:E; [reflexivity|]. exfalso.
      destruct (v_completed _ _ Hinv' j b) as [Hwj _]; [simpl; left; reflexivity|].
      simpl in Hwj. rewrite Hmem' in Hwj. destruct Hwj. }
    unfold fails_tfold in HA. apply andb_true_iff in HA. destruct HA as [Hok Htf]. apply negb_true_iff in Hok.
    constructor; simpl; try assumption.
    + intros o Hro. rewrite Hres in Hro. discriminate.
    + intros _. auto.
    + intros Ht. destruct (c_api cf); discriminate.
    + intros i Hi. inversion Hi; subst i. split; [exact Htf|]. split; [reflexivity|].
      destruct (x_tfold_failed Htf Hserr) as [Hf|(j & T1 & Etr & Ef & Hcj)].
      * specialize (Hfl Hok). rewrite Hf in Hfl. destruct Hfl.
      * specialize (Hfl Hok). rewrite Etr, failed_app, Ef in Hfl. simpl in Hfl. destruct Hfl as [->|[]].
        exists T1. auto.
    + discriminate.
    + rewrite Ho. assumption.
    + reflexivity.
    + reflexivity.
    + reflexivity.
    + intros _. right. right. discriminate.
    + intros _. left. reflexivity.
    + discriminate.
    + discriminate.
    + intros _. right. right. left. intros Hn. specialize (Hfl Hok). rewrite Hn in Hfl. destruct Hfl.
  - assert (Hfe : fails_tfe cf ok = true -> ok = false).
    { unfold fails_tfe. intros Hx. apply andb_true_iff in Hx. destruct Hx as [Hx _]. apply negb_true_iff in Hx. exact Hx. }
    constructor; simpl; try assumption.
    + intros o Hro. rewrite Hres in Hro. discriminate.
    + intros Hf. rewrite Hfin in Hf. discriminate.
    + intros x Hx. destruct (fails_tfe cf ok) eqn:HB; [|apply x_errs_failed; exact Hx].
      apply in_app_or in Hx. destruct Hx as [Hx|[<-|[]]]; [apply x_errs_failed; exact Hx | apply Hfl; apply Hfe; reflexivity].
    + intros Ht x Hx Hxf. apply in_app_or in Hx. destruct Hx as [Hx|[<-|[]]].
      * pose proof (x_errs_complete Ht x Hx Hxf) as He. destruct (fails_tfe cf ok); [apply in_or_app; left; exact He | exact He].
      * apply in_failed in Hxf. pose proof (trace_end_unique _ _ _ _ _ (v_trace _ _ Hinv) Hend Hxf) as Hok. subst ok.
        unfold fails_tfe. rewrite Ht. simpl. apply in_or_app. right. left. reflexivity.
    + intros Ht. unfold fails_tfe. rewrite Ht, andb_false_r. apply x_errs_other. exact Ht.
    + intros Ht He. unfold fails_tfold in HA. rewrite Ht, andb_true_r in HA. apply negb_false_iff in HA. subst ok.
      destruct (x_tfold_failed Ht He) as [Hf|(j & T1 & Etr & Ef & Hcj)]; [left; exact Hf|]. right.
      exists j, T1. split; [exact Etr|]. split; [exact Ef|]. apply in_remove_key. split; [exact Hcj|].
      intros ->. destruct (v_completed _ _ Hinv id false Hcj) as [_ Hend'].
      pose proof (trace_end_unique _ _ _ _ _ (v_trace _ _ Hinv) Hend Hend'). discriminate.
    + rewrite Ho. assumption.
    + intros Hq. rewrite (x_qfin_stx Hq). reflexivity.
    + intros ->. simpl. rewrite andb_false_r. reflexivity.
    + intros Hf. rewrite Hfin in Hf. discriminate.
    + intros Hw'. destruct (x_ian Hw') as [Htx|[m0 [Hm0 Hint]]]; [left; rewrite Htx; reflexivity|].
      destruct (Nat.eq_dec (m_key m0) id) as [Hk0|Hk0].
      * assert (m0 = m) by (apply (key_unique (members s)); [assumption | exact Hm0 | exact Hm | congruence]).
        subst m0. left. rewrite Hint. simpl. apply andb_false_r.
      * right. exists m0. split; [|exact Hint]. apply filter_In. split; [exact Hm0 | apply keep_spec; exact Hk0].
    + intros HB. apply andb_true_iff in HB. destruct HB as [HB _]. apply andb_true_iff in HB. destruct HB as [HB _].
      pose proof HB as HB'. apply andb_true_iff in HB'. destruct HB' as [Htx _].
      destruct Hds as [(_ & _ & E3) | (-> & _ & _)].
      * exfalso. specialize (E3 HB). rewrite x_done_open in E3. apply negb_false_iff in E3.
        rewrite (x_qfin_stx E3) in Htx. discriminate.
      * intros x Hx. apply in_or_app. apply in_app_or in Hx. destruct Hx as [Hx|Hx]; [left; apply (x_stx_sent Htx); exact Hx | right; exact Hx].
    + intros HB. apply andb_false_iff in HB. destruct HB as [HB|HB].
      * apply andb_false_iff in HB. destruct HB as [HB|HB].
        -- apply andb_false_iff in HB. destruct HB as [HB|HB].
           ++ destruct (x_stx_why HB) as [A|[A|[A|A]]]; auto. rewrite Hr in A. discriminate.
           ++ apply negb_false_iff in HB. right. right. left. intros Hn. specialize (Hfl (Hfe HB)). rewrite Hn in Hfl. destruct Hfl.
        -- apply negb_false_iff, Nat.eqb_eq in HB. left. exact HB.
      * apply negb_false_iff in HB. right. left. apply (x_int_ian m Hm HB).
Qed.

(** ** One poll of a block, popped from the head of the run queue *)

Lemma finish_block_ext cf s m m' id ok :
  m_key m = m_key m' -> m_int m = m_int m' -> finish_block cf s m id ok = finish_block cf s m' id ok.
Proof. unfold finish_block. intros -> ->. reflexivity. Qed.

Lemma not_new_key_wait s m : NoDup (map m_key (members s)) -> In m (members s) -> m_st m = MWait ->
  ~ In (m_key m) (new_keys (members s)).
Proof.
  intros Hnd Hm Hs Hn. apply in_new_keys in Hn. destruct Hn as [m' [Hm' [Hk' Hs']]].
  assert (m' = m) by (apply (key_unique (members s)); [exact Hnd | exact Hm' | exact Hm | exact Hk']).
  subst m'. congruence.
Qed.

Lemma inv2_pop_none cf s k rest :
  Inv cf s -> Inv2 cf s -> runq s = k :: rest -> find_member (s <| runq := rest |>) k = None ->
  Inv2 cf (s <| runq := rest |>).
Proof.
  intros Hinv H Hr Hf. exfalso.
  assert (Hk : In k (map m_key (members s))) by (apply (x_runq_keys _ _ H); rewrite Hr; left; reflexivity).
  apply in_map_iff in Hk. destruct Hk as [m [Hk Hm]].
  unfold find_member in Hf. simpl in Hf. apply (find_none _ _ Hf) in Hm. rewrite Hk, Nat.eqb_refl in Hm. discriminate.
Qed.

Lemma inv2_pop_poll cf s k rest m :
  cfg_ok cf -> Inv cf s -> Inv2 cf s -> s_fin s = false -> result s = None ->
  runq s = k :: rest -> find_member (s <| runq := rest |>) k = Some m ->
  Inv2 cf (fst (block_poll cf (s <| runq := rest |>) m)) /\
  result (fst (block_poll cf (s <| runq := rest |>) m)) = None /\
  q_fin (fst (block_poll cf (s <| runq := rest |>) m)) = q_fin s /\
  (s_fin (fst (block_poll cf (s <| runq := rest |>) m)) = true -> snd (block_poll cf (s <| runq := rest |>) m) = true).
Proof.
  intros Hok Hinv H Hfin Hres Hr Hfm.
  set (s0 := s <| runq := rest |>) in *.
  assert (Hinv0 : Inv cf s0) by (apply Inv_set_runq; exact Hinv).
  assert (H0 : Inv2R cf s0 (k :: rest)) by (apply Inv2R_popped; assumption).
  assert (Hm : In m (members s0)) by (apply (find_member_In _ _ _ Hfm)).
  assert (Hk : m_key m = k).
  { unfold find_member in Hfm. apply find_some in Hfm. destruct Hfm as [_ E]. apply Nat.eqb_eq in E. exact E. }
  assert (Hfin0 : s_fin s0 = false) by exact Hfin.
  assert (Hres0 : result s0 = None) by exact Hres.
  assert (Hq0 : q_fin s0 = q_fin s) by reflexivity.
  assert (Hknd : NoDup (map m_key (members s0))) by (exact (x_keys_nodup _ _ H)).
  destruct (inv_block_poll_gen cf s0 m Hinv0 Hm) as [Hinv' Hframe].
  assert (Hrq : runq (fst (block_poll cf s0 m)) = rest) by (destruct Hframe as [E _]; exact E).
  cut (Inv2R cf (fst (block_poll cf s0 m)) rest /\ result (fst (block_poll cf s0 m)) = None /\
       q_fin (fst (block_poll cf s0 m)) = q_fin s0 /\
       (s_fin (fst (block_poll cf s0 m)) = true -> snd (block_poll cf s0 m) = true)).
  { intros (A & B & C & D). split; [apply (Inv2R_to _ _ _ Hrq A)|].
    split; [exact B|]. split; [rewrite C; exact Hq0 | exact D]. }
  clear Hframe Hrq. clearbody s0. clear Hq0 Hfm Hr H Hinv Hfin Hres s.
  pose proof (Inv_keys_ok _ _ Hinv0) as Hko.
  revert Hinv'. unfold block_poll. destruct (m_st m) eqn:Hst; destruct (m_id m) as [id|] eqn:Hid.
  - (* first poll of a block with a function *)
    assert (Hkey : k = id).
    { pose proof (Hko m Hm) as Hx. rewrite Hid in Hx. destruct Hx. congruence. }
    rewrite Hkey in Hk. clear Hknd. revert H0. rewrite Hkey. intros H0. clear Hkey k.
    assert (Hknd : NoDup (map m_key (members s0))) by (exact (x_keys_nodup _ _ H0)).
    assert (Hnew : In id (new_ids (members s0))) by (apply in_new_ids; exists m; auto).
    assert (Hnw : ~ In id (wait_ids (members s0))) by (apply (Inv_new_not_wait _ _ _ Hinv0 Hnew)).
    pose proof (inv_start_block cf s0 m id Hinv0 Hm Hst Hid) as Hinv1.
    rewrite start_block_eq in * by exact Hnw. rewrite Hk in *.
    pose proof (inv2_start cf s0 m id rest _ eq_refl Hinv0 H0 Hm Hk Hid Hst) as H1.
    set (s1 := s0 <| trace := trace s0 ++ [Start id] |> <| members := map (to_wait id) (members s0) |>) in *.
    assert (Hnc : ~ In id (map fst (completed s0))).
    { intros Hin. apply in_map_iff in Hin. destruct Hin as [[i b] [Hi Hin]]. simpl in Hi. subst i.
      apply Hnw. apply (v_completed _ _ Hinv0 id b Hin). }
    destruct (lookup id (c_imm cf)) as [ok|].
    + assert (Hw1 : In id (wait_ids (members s1))).
      { change (members s1) with (map (to_wait id) (members s0)).
        apply (in_wait_to_wait _ _ _ _ Hko). right. split; [reflexivity | exact Hnew]. }
      assert (Hinv2 : Inv cf (complete s1 id ok)) by (apply inv_complete; [exact Hinv1 | exact Hw1 | exact Hnc]).
      assert (H2 : Inv2R cf (complete s1 id ok) (id :: rest)).
      { apply inv2_complete; [exact Hinv1 | exact H1 | exact Hw1 | exact Hnc | left; reflexivity]. }
      unfold resume_block.
      assert (Hl : lookup id (completed (complete s1 id ok)) = Some ok).
      { change (completed (complete s1 id ok)) with (completed s0 ++ [(id, ok)]). apply lookup_snoc. exact Hnc. }
      rewrite Hl. cbn [fst snd].
      rewrite (finish_block_ext cf _ m (to_wait id m) id ok) by (rewrite ?to_wait_key, ?to_wait_int; reflexivity).
      intros Hinv'.
      destruct (inv2_finish cf (complete s1 id ok) (to_wait id m) id ok rest _ eq_refl Hinv2 H2) as (A & B & C); try assumption.
      * change (members (complete s1 id ok)) with (map (to_wait id) (members s0)). apply in_map. exact Hm.
      * rewrite to_wait_key. exact Hk.
      * apply lookup_In. exact Hl.
      * split; [exact A|]. split; [exact B|]. split; [exact C | reflexivity].
    + cbn [fst snd]. intros _. split; [|split; [exact Hres0 | split; [reflexivity|]]].
      * apply (inv2_pop cf s1 id rest _ eq_refl H1); [exact Hnc|].
        change (members s1) with (map (to_wait id) (members s0)). rewrite new_keys_to_wait.
        intros Hin. apply filter_In in Hin. destruct Hin as [_ Hin]. unfold nek in Hin. rewrite Nat.eqb_refl in Hin. discriminate.
      * change (s_fin s1) with (s_fin s0). rewrite Hfin0. discriminate.
  - (* a block without a function *)
    cbn [fst snd]. intros _. rewrite Hk.
    split; [apply (inv2_remove_none cf s0 m k rest _ eq_refl Hinv0 H0 Hm Hk Hid Hst)|].
    destruct (take_if_shape (m_int m) s0 (x_senders_d _ _ H0)) as (d & wk & -> & _).
    unfold remove_member. simpl. auto.
  - (* a block whose user future may have resolved *)
    assert (Hkey : k = id).
    { pose proof (Hko m Hm) as Hx. rewrite Hid in Hx. destruct Hx. congruence. }
    rewrite Hkey in Hk. clear Hknd. revert H0. rewrite Hkey. intros H0. clear Hkey k.
    assert (Hknd : NoDup (map m_key (members s0))) by (exact (x_keys_nodup _ _ H0)). unfold resume_block. destruct (lookup id (completed s0)) as [ok|] eqn:Hl.
    + cbn [fst snd]. intros Hinv'. apply lookup_In in Hl.
      destruct (inv2_finish cf s0 m id ok rest _ eq_refl Hinv0 H0) as (A & B & C); try assumption.
      split; [exact A|]. split; [exact B|]. split; [exact C | reflexivity].
    + cbn [fst snd]. intros _. split; [|split; [exact Hres0 | split; [reflexivity | rewrite Hfin0; discriminate]]].
      apply (inv2_pop cf s0 id rest _ eq_refl H0).
      * apply lookup_none_notin. rewrite Hl. reflexivity.
      * rewrite <- Hk. apply not_new_key_wait; assumption.
  - cbn [fst snd]. intros _. split; [|split; [exact Hres0 | split; [reflexivity | rewrite Hfin0; discriminate]]].
    apply (inv2_pop cf s0 k rest _ eq_refl H0).
    + intros Hin. apply in_map_iff in Hin. destruct Hin as [[i b] [Hi Hin]]. simpl in Hi. subst i.
      destruct (v_completed _ _ Hinv0 k b Hin) as [Hw _].
      pose proof (Inv_id_lt _ _ _ Hinv0 (or_introl Hw)) as Hlt.
      pose proof (Hko m Hm) as Hx. rewrite Hid in Hx. lia.
    + rewrite <- Hk. apply not_new_key_wait; assumption.
Qed.

Print Assumptions inv2_pop_poll.
Print Assumptions inv2_ecmp.
Print Assumptions inv2_pop_none.
