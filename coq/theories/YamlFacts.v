(** Facts about the YAML layer of [GraphInfo] ([Yaml.v]): the reader inverts the writer on every value whose
    edges connect nodes, refuses the text of every other value, accepts nothing but the writer's image, and
    the writer is injective. *)
From Coq Require Import List Arith Bool Lia.
Import ListNotations.
From FG Require Import Dag Builder Yaml DagFacts.

Lemma parse_nodes_map ws rest :
  (forall w r, rest <> YNode w :: r) -> parse_nodes (map YNode ws ++ rest) = (ws, rest).
Proof.
  intros Hr. induction ws as [|w ws IH]; simpl.
  - destruct rest as [|y r]; [reflexivity|]. destruct y; try reflexivity. exfalso. eapply Hr. reflexivity.
  - rewrite IH. reflexivity.
Qed.

Lemma edge_eta3 (e : edge) : (esrc e, edst e, ekind e) = e.
Proof. destruct e as [[a b] k]. reflexivity. Qed.

Lemma parse_edges_yaml n es :
  forallb (fun e => (esrc e <? n) && (edst e <? n)) es = true ->
  parse_edges n (flat_map yaml_edge es) = Some es.
Proof.
  induction es as [|e es IH]; intros H; [reflexivity|].
  simpl in H. apply andb_true_iff in H. destruct H as [He Hes].
  cbn [flat_map yaml_edge app parse_edges]. rewrite He, (IH Hes), edge_eta3. reflexivity.
Qed.

Lemma parse_edges_yaml_bad n es :
  forallb (fun e => (esrc e <? n) && (edst e <? n)) es = false ->
  parse_edges n (flat_map yaml_edge es) = None.
Proof.
  induction es as [|e es IH]; intros H; [discriminate|].
  simpl in H. cbn [flat_map yaml_edge app parse_edges].
  destruct ((esrc e <? n) && (edst e <? n)) eqn:He; [|reflexivity].
  simpl in H. rewrite (IH H). reflexivity.
Qed.

Lemma is_nil_flat es : is_nil (flat_map yaml_edge es) = is_nil es.
Proof. destruct es; reflexivity. Qed.

Lemma eqb_refl_b b : Bool.eqb b b = true.
Proof. destruct b; reflexivity. Qed.

Lemma gi_eta i : mkGI (gi_nodes i) (gi_edges i) = i.
Proof. destruct i; reflexivity. Qed.

Theorem yaml_roundtrip i : gi_in_range i = true -> gi_parse (gi_yaml i) = Some i.
Proof.
  intros H. unfold gi_parse, gi_yaml.
  rewrite parse_nodes_map by (intros w r; discriminate).
  rewrite eqb_refl_b. cbn [negb].
  rewrite (parse_edges_yaml _ _ H), eqb_refl_b, gi_eta. reflexivity.
Qed.

Theorem yaml_refuses_out_of_range i : gi_in_range i = false -> gi_parse (gi_yaml i) = None.
Proof.
  intros H. unfold gi_parse, gi_yaml.
  rewrite parse_nodes_map by (intros w r; discriminate).
  rewrite eqb_refl_b. cbn [negb].
  rewrite (parse_edges_yaml_bad _ _ H). reflexivity.
Qed.

(** The reader accepts nothing but the writer's image. *)
Lemma parse_nodes_sound l ws rest :
  parse_nodes l = (ws, rest) -> l = map YNode ws ++ rest.
Proof.
  revert ws rest. induction l as [|y l IH]; intros ws rest H.
  - simpl in H. inversion H. reflexivity.
  - destruct y; try (simpl in H; inversion H; reflexivity).
    simpl in H. destruct (parse_nodes l) as [ws' r'] eqn:E. inversion H; subst.
    simpl. rewrite (IH ws' rest eq_refl). reflexivity.
Qed.

Lemma parse_edges_sound n : forall l es,
  parse_edges n l = Some es ->
  l = flat_map yaml_edge es /\ forallb (fun e => (esrc e <? n) && (edst e <? n)) es = true.
Proof.
  fix IH 1. intros l es H.
  destruct l as [|y1 l]; [simpl in H; inversion H; split; reflexivity|].
  destruct y1 as [| | | | | |a| |]; try discriminate H.
  destruct l as [|y2 l]; [discriminate H|]. destruct y2 as [| | | | | | |b|]; try discriminate H.
  destruct l as [|y3 l]; [discriminate H|]. destruct y3 as [| | | | | | | |k]; try discriminate H.
  cbn [parse_edges] in H.
  destruct ((a <? n) && (b <? n)) eqn:Hr; [|discriminate H].
  destruct (parse_edges n l) as [es'|] eqn:E; [|discriminate H].
  inversion H; subst es. destruct (IH l es' E) as [Hl Hf]. subst l.
  split; [reflexivity|]. cbn [forallb esrc edst fst snd]. rewrite Hr, Hf. reflexivity.
Qed.

Lemma eqb_true_eq a b : Bool.eqb a b = true -> a = b.
Proof. destruct a, b; simpl; congruence. Qed.

Theorem yaml_parse_sound l i : gi_parse l = Some i -> l = gi_yaml i /\ gi_in_range i = true.
Proof.
  unfold gi_parse. intros H.
  destruct l as [|y l]; [discriminate|]. destruct y; try discriminate.
  destruct l as [|y l]; [discriminate|]. destruct y; try discriminate.
  destruct (parse_nodes l) as [ws l2] eqn:En.
  destruct (negb (Bool.eqb empty (is_nil ws))) eqn:Hemp; [discriminate|].
  apply negb_false_iff, eqb_true_eq in Hemp.
  destruct l2 as [|y l2]; [discriminate|]. destruct y; try discriminate.
  destruct l2 as [|y l2]; [discriminate|]. destruct y; try discriminate.
  destruct l2 as [|y l3]; [discriminate|]. destruct y; try discriminate.
  destruct (parse_edges (length ws) l3) as [es|] eqn:Ee; [|discriminate].
  destruct (Bool.eqb empty0 (is_nil es)) eqn:Hemp2; [|discriminate].
  apply eqb_true_eq in Hemp2. inversion H; subst i.
  apply parse_nodes_sound in En. destruct (parse_edges_sound _ _ _ Ee) as [Hl3 Hr]. subst.
  split; [reflexivity | exact Hr].
Qed.

(** The writer is injective: two values with the same text are the same value (no range hypothesis). *)
Lemma nodes_split a : forall b x y,
  map YNode a ++ YHoles :: x = map YNode b ++ YHoles :: y -> a = b /\ x = y.
Proof.
  induction a as [|w a IH]; intros [|w' b] x y H; simpl in H.
  - inversion H. split; reflexivity.
  - discriminate.
  - discriminate.
  - inversion H; subst. destruct (IH b x y H2) as [-> ->]. split; reflexivity.
Qed.

Lemma edges_text_inj a : forall b, flat_map yaml_edge a = flat_map yaml_edge b -> a = b.
Proof.
  induction a as [|e a IH]; intros [|e' b] H; cbn [flat_map yaml_edge app] in H.
  - reflexivity.
  - discriminate.
  - discriminate.
  - inversion H. rewrite (IH b H4). f_equal.
    rewrite <- (edge_eta3 e), <- (edge_eta3 e'). congruence.
Qed.

Theorem yaml_injective a b : gi_yaml a = gi_yaml b -> a = b.
Proof.
  unfold gi_yaml. intros H. inversion H as [[Hn Hrest]].
  destruct (nodes_split _ _ _ _ Hrest) as [Hnodes Htail].
  inversion Htail as [[He Hes]]. apply edges_text_inj in Hes.
  rewrite <- (gi_eta a), <- (gi_eta b). congruence.
Qed.

(** A value whose edge list is well formed over its nodes is in range. *)
Lemma wf_in_range ws es : wf_edges (length ws) es -> gi_in_range (mkGI ws es) = true.
Proof.
  intros Hwf. unfold gi_in_range. simpl. apply forallb_forall. intros e He.
  destruct (Hwf e He) as [Ha Hb].
  apply andb_true_iff. split; apply Nat.ltb_lt; assumption.
Qed.
