(** * BuildFacts.v — consequences of [build_total_spec]: equality of built graphs, sequential
    iteration, GraphInfo. *)

From FG Require Import Dag Builder DagFacts EdgeFacts RankFacts BuilderFacts TopoFacts AugFacts.
From Coq Require Import Permutation.

(** ** The conflict predicate is symmetric *)

Lemma inter_spec a b : inter a b = true <-> exists x, In x a /\ In x b.
Proof.
  unfold inter. rewrite existsb_exists. split; intros [x [H1 H2]]; exists x; split; try assumption;
    apply mem_spec; assumption.
Qed.

Lemma inter_sym a b : inter a b = inter b a.
Proof.
  destruct (inter a b) eqn:H1; destruct (inter b a) eqn:H2; try reflexivity.
  - apply inter_spec in H1. destruct H1 as [x [Ha Hb]].
    assert (inter b a = true) by (apply inter_spec; exists x; tauto). congruence.
  - apply inter_spec in H2. destruct H2 as [x [Ha Hb]].
    assert (inter a b = true) by (apply inter_spec; exists x; tauto). congruence.
Qed.

Lemma conflict_sym f g : conflict f g = conflict g f.
Proof.
  unfold conflict. rewrite (inter_sym (rd f) (wr g)), (inter_sym (wr f) (rd g)), (inter_sym (wr f) (wr g)).
  destruct (inter (wr g) (rd f)), (inter (rd g) (wr f)), (inter (wr g) (wr f)); reflexivity.
Qed.

(** A conflict needs a writer: two functions that only read never conflict. *)
Lemma conflict_needs_writer f g : wr f = [] -> wr g = [] -> conflict f g = false.
Proof.
  intros Hf Hg. unfold conflict. rewrite Hf, Hg. simpl.
  assert (H : forall l, inter l [] = false) by (induction l; simpl; auto).
  rewrite H. reflexivity.
Qed.

(** ** `impl PartialEq for FnGraph` decides equality of nodes and raw edges *)

Lemma zip_all_eq {A} (f : A -> A -> bool) (l1 l2 : list A) :
  (forall x y, f x y = true <-> x = y) -> length l1 = length l2 ->
  (zip_all f l1 l2 = true <-> l1 = l2).
Proof.
  intros Hf. revert l2. induction l1 as [|x l1 IH]; intros [|y l2] Hlen; simpl in *; try discriminate.
  - tauto.
  - rewrite andb_true_iff, Hf, IH by lia. split; [intros [-> ->]; reflexivity | intros H; inversion H; tauto].
Qed.

Lemma kind_eqb_eq a b : kind_eqb a b = true <-> a = b.
Proof. destruct a, b; simpl; split; congruence. Qed.

Lemma edge_eqb_eq e1 e2 : edge_eqb e1 e2 = true <-> e1 = e2.
Proof.
  destruct e1 as [[a b] k], e2 as [[a' b'] k']. unfold edge_eqb, esrc, edst, ekind. simpl.
  rewrite !andb_true_iff, !Nat.eqb_eq, kind_eqb_eq. split; [intros [[-> ->] ->]; reflexivity | intros H; inversion H; tauto].
Qed.

Lemma list_eqb_eq a b : list_eqb a b = true <-> a = b.
Proof.
  unfold list_eqb. rewrite andb_true_iff, Nat.eqb_eq. split.
  - intros [Hl Hz]. apply (zip_all_eq Nat.eqb a b Nat.eqb_eq Hl). exact Hz.
  - intros ->. split; [reflexivity|]. apply (zip_all_eq Nat.eqb b b Nat.eqb_eq eq_refl). reflexivity.
Qed.

Lemma fn_eqb_eq f g : fn_eqb f g = true <-> f = g.
Proof.
  destruct f as [i r w], g as [i' r' w']. unfold fn_eqb. simpl.
  rewrite !andb_true_iff, Nat.eqb_eq, !list_eqb_eq. split; [intros [[-> ->] ->]; reflexivity | intros H; inversion H; tauto].
Qed.

Theorem fngraph_eq_iff G1 G2 :
  fngraph_eq G1 G2 = true <-> fg_nodes G1 = fg_nodes G2 /\ fg_edges G1 = fg_edges G2.
Proof.
  unfold fngraph_eq.
  destruct ((length (fg_nodes G1) =? length (fg_nodes G2)) && (length (fg_edges G1) =? length (fg_edges G2))) eqn:Hl.
  - apply andb_true_iff in Hl. destruct Hl as [H1 H2]. apply Nat.eqb_eq in H1. apply Nat.eqb_eq in H2.
    rewrite andb_true_iff, (zip_all_eq edge_eqb _ _ edge_eqb_eq H2), (zip_all_eq fn_eqb _ _ fn_eqb_eq H1). tauto.
  - split; [discriminate|]. intros [H1 H2]. rewrite H1, H2, !Nat.eqb_refl in Hl. discriminate.
Qed.

(** The user part of the built edge list is recovered by dropping the Data edges. *)
Definition non_data (e : edge) : bool := negb (kind_eqb (ekind e) Data).

Lemma filter_user es D :
  no_data es -> Forall (fun e => ekind e = Data) D -> filter non_data (es ++ D) = es.
Proof.
  intros Hn HD. rewrite filter_app.
  assert (H1 : filter non_data es = es).
  { induction es as [|e es IH]; simpl; [reflexivity|].
    assert (He : non_data e = true).
    { unfold non_data. destruct (ekind e) eqn:Hk; simpl; try reflexivity. exfalso. apply (Hn e); [left; reflexivity | exact Hk]. }
    rewrite He, IH; [reflexivity|]. intros x Hx. apply Hn. right. exact Hx. }
  assert (H2 : filter non_data D = []).
  { induction HD as [|e D He HD IH]; simpl; [reflexivity|]. unfold non_data at 1. rewrite He. simpl. exact IH. }
  rewrite H1, H2, app_nil_r. reflexivity.
Qed.

(** ** Sequential iteration *)

Lemma try_visit_none order failing :
  (forall x, In x order -> ~ In x failing) -> try_visit order failing = (order, None).
Proof.
  induction order as [|x order IH]; intros H; simpl; [reflexivity|].
  destruct (mem x failing) eqn:Hm; [apply mem_spec in Hm; exfalso; apply (H x); [left; reflexivity | exact Hm]|].
  rewrite IH; [reflexivity|]. intros y Hy. apply H. right. exact Hy.
Qed.

Lemma try_visit_first l1 x l2 failing :
  (forall y, In y l1 -> ~ In y failing) -> In x failing ->
  try_visit (l1 ++ x :: l2) failing = (l1 ++ [x], Some x).
Proof.
  induction l1 as [|y l1 IH]; intros H Hx; simpl.
  - apply mem_spec in Hx. rewrite Hx. reflexivity.
  - destruct (mem y failing) eqn:Hm; [apply mem_spec in Hm; exfalso; apply (H y); [left; reflexivity | exact Hm]|].
    rewrite IH; [reflexivity| |exact Hx]. intros z Hz. apply H. right. exact Hz.
Qed.

(** ** GraphInfo *)

Lemma add_edges_check_fst todo : forall es, fst (add_edges_check es todo) = es ++ todo.
Proof.
  induction todo as [|e todo IH]; intros es; simpl; [rewrite app_nil_r; reflexivity|].
  specialize (IH (es ++ [e])). destruct (add_edges_check (es ++ [e]) todo) as [es' c]. simpl in *.
  rewrite IH, <- app_assoc. reflexivity.
Qed.

Lemma is_cyclic_false n es : wfg n es -> is_cyclic n es = false.
Proof.
  intros [Hwf [Hac Hu]]. unfold is_cyclic. destruct (existsb _ es) eqn:H; [|reflexivity].
  apply existsb_exists in H. destruct H as [e [He Hr]]. apply reach_sound in Hr.
  exfalso. apply (Hac (esrc e) (edst e)); [|exact Hr]. exists (ekind e). rewrite <- edge_eta. exact He.
Qed.

Lemma gi_from_graph_spec G n f :
  n = fg_n G -> wfg n (fg_edges G) ->
  gi_from_graph G f = Some (mkGI (map f (fg_nodes G)) (fg_edges G)).
Proof.
  intros -> Hw. unfold gi_from_graph.
  pose proof (add_edges_check_fst (fg_edges G) []) as Hf.
  destruct (add_edges_check [] (fg_edges G)) as [es c]. simpl in Hf. subst es.
  rewrite (is_cyclic_false _ _ Hw), andb_false_r. reflexivity.
Qed.

Lemma fold_snoc {A} (l acc : list A) : fold_left (fun a e => a ++ [e]) l acc = acc ++ l.
Proof.
  revert acc. induction l as [|x l IH]; intros acc; simpl; [rewrite app_nil_r; reflexivity|].
  rewrite IH, <- app_assoc. reflexivity.
Qed.

Lemma gi_roundtrip i : gi_de (gi_ser i) = i.
Proof. destruct i as [ns es]. unfold gi_de, gi_ser. simpl. rewrite fold_snoc. reflexivity. Qed.

Lemma gi_eqb_iff a b : gi_eqb a b = true <-> a = b.
Proof.
  destruct a as [n1 e1], b as [n2 e2]. unfold gi_eqb. simpl.
  rewrite !andb_true_iff, list_eqb_eq, Nat.eqb_eq. split.
  - intros [[-> Hl] Hz]. apply (zip_all_eq edge_eqb _ _ edge_eqb_eq Hl) in Hz. subst. reflexivity.
  - intros H. inversion H; subst. split; [split; reflexivity|].
    apply (zip_all_eq edge_eqb e2 e2 edge_eqb_eq eq_refl). reflexivity.
Qed.
