(* Line-oriented driver around the extracted model (model.ml).
   Reads a bundle file, ignores everything but CASE lines, prints the model's OBS lines.
   Format: /verif/harness/FORMAT.md.  Part of the trusted base (parsing + printing only). *)
open Model

let rec nat_of_int n = if n <= 0 then O else S (nat_of_int (n - 1))
let rec int_of_nat = function O -> 0 | S n -> 1 + int_of_nat n
let split c s = if s = "" then [] else String.split_on_char c s
let ints_of c s = List.map (fun x -> nat_of_int (int_of_string x)) (split c s)
let str_ints l = if l = [] then "-" else String.concat " " (List.map (fun x -> string_of_int (int_of_nat x)) l)
let dot_ints l = String.concat "." (List.map (fun x -> string_of_int (int_of_nat x)) l)

let kind_char = function Logic -> "L" | Contains -> "C" | Data -> "D"
(* the text of one line of Yaml.yline (decimal numerals and key words are the only glue), escaped like the
   harness's GY observation: newline -> '|' *)
let yline_text = function
  | YGraph -> "graph:"
  | YNodes e -> if e then "  nodes: []" else "  nodes:"
  | YNode w -> Printf.sprintf "  - %d" (int_of_nat w)
  | YHoles -> "  node_holes: []"
  | YProp -> "  edge_property: directed"
  | YEdges e -> if e then "  edges: []" else "  edges:"
  | YSrc a -> Printf.sprintf "  - - %d" (int_of_nat a)
  | YDst b -> Printf.sprintf "    - %d" (int_of_nat b)
  | YKind k -> "    - " ^ (match k with Logic -> "Logic" | Contains -> "Contains" | Data -> "Data")
let yaml_obs ls = String.concat "" (List.map (fun l -> yline_text l ^ "|") ls)
let str_edges es =
  if es = [] then "-" else
  String.concat " " (List.map (fun ((a, b), k) ->
    Printf.sprintf "%d-%d%s" (int_of_nat a) (int_of_nat b) (kind_char k)) es)

let parse_pairs s =
  List.map (fun p -> match String.split_on_char '-' p with
    | [a; b] -> (nat_of_int (int_of_string a), nat_of_int (int_of_string b))
    | _ -> failwith ("bad pair " ^ p)) (split ',' s)

let parse_op tok =
  match String.split_on_char ':' tok with
  | ["F"; f; r; w] -> AddFn { fid = nat_of_int (int_of_string f); rd = ints_of '.' r; wr = ints_of '.' w }
  | ["L"; a; b] -> AddLogic (nat_of_int (int_of_string a), nat_of_int (int_of_string b))
  | ["C"; a; b] -> AddContains (nat_of_int (int_of_string a), nat_of_int (int_of_string b))
  | ["LB"; l] -> AddLogicBatch (parse_pairs l)
  | ["CB"; l] -> AddContainsBatch (parse_pairs l)
  | _ -> failwith ("bad op " ^ tok)

let parse_ops s = List.map parse_op (List.filter (fun t -> t <> "" && t <> "-") (String.split_on_char ' ' s))

let () = Runtime_driver.parse_ops_hook := parse_ops

let str_res = function
  | RId i -> "f" ^ string_of_int (int_of_nat i)
  | ROk -> "ok" | RCycle -> "cyc" | RPanic -> "P"

let has_panic rs = List.exists (fun r -> r = RPanic) rs

let obs id tag s = Printf.printf "OBS %s %s %s\n" id tag s

let try_line order ks =
  if ks = [] then "-" else
  String.concat ";" (List.map (fun k ->
    let (v, r) = try_visit order [k] in
    Printf.sprintf "%d:%s:%s" (int_of_nat k) (dot_ints v)
      (match r with Some x -> "e" ^ string_of_int (int_of_nat x) | None -> "ok")) ks)

let builder_case ?(timed=false) id ops_s tf_s =
  if timed then obs id "BT" "ok";
  let ops = parse_ops ops_s in
  let (g, rs) = run_ops empty_dag ops in
  obs id "R" (if rs = [] then "-" else String.concat " " (List.map str_res rs));
  if has_panic rs then Printf.printf "OBS %s X\n" id
  else match build g with
  | BPanic -> obs id "B" "P"
  | BOof -> obs id "B" "OOF"
  | BOk (gg0, pops, queries) ->
    obs id "B" "ok";
    let (gg, refused) = Runtime_driver.apply_override id gg0 in
    if refused then obs id "GX" "override-refused";
    obs id "E" (str_edges gg.fg_edges);
    obs id "K" (str_ints gg.fg_ranks);
    let io = iter_order gg and ro = iter_rev_order gg and mo = map_order gg in
    obs id "TI" (str_ints io); obs id "TS" (str_ints mo (* toposort() walked over the graph *));
    obs id "TR" (str_ints ro); obs id "TM" (str_ints mo);
    obs id "FO" (str_ints mo); obs id "FE" (str_ints mo);
    obs id "TN" (str_ints (iter_insertion_order gg));
    obs id "TNM" (str_ints (iter_insertion_order gg));
    obs id "TNI" (let l = iter_insertion_order gg in
                  if l = [] then "-" else
                  String.concat " " (List.mapi (fun i x -> Printf.sprintf "%d:%d" i (int_of_nat x)) l));
    obs id "CLI" (str_ints io); obs id "CLR" (str_ints ro); obs id "CFI" (str_ints io); obs id "CFR" (str_ints ro);
    obs id "CGI" (str_ints io); obs id "CGR" (str_ints ro); obs id "CEQ" "1";
    obs id "PM1" (str_ints mo); obs id "PM2" (str_ints mo); obs id "PM3" (str_ints mo); obs id "PM4" (str_ints io);
    (* several iterators of one graph value alive at once: in the model an iteration is a function of the graph *)
    obs id "NI" (str_ints io); obs id "NR" (str_ints ro); obs id "ZI" (str_ints io); obs id "ZR" (str_ints ro);
    let ks = ints_of ',' tf_s in
    obs id "TF" (try_line mo ks); obs id "TE" (try_line mo ks);
    obs id "P" (Printf.sprintf "%d %d" (int_of_nat pops) (int_of_nat queries));
    (match build g with
     | BOk (g2, _, _) -> obs id "Q" (Printf.sprintf "%d %d" (if fngraph_eq gg0 g2 then 1 else 0)
                                       (if gg.fg_ranks = g2.fg_ranks then 1 else 0))
     | _ -> obs id "Q" "X");
    (match gi_from_graph gg fid with
     | None -> obs id "GP" "P"
     | Some gi ->
       obs id "GN" (str_ints gi.gi_nodes); obs id "GE" (str_edges gi.gi_edges);
       obs id "GI" (str_ints (gi_iter gi)); obs id "GR" (str_ints (gi_iter_rev gi));
       obs id "GY" (yaml_obs (gi_yaml gi));
       (* malformed stream: one more edge triple, target not a node / an edge that keeps the value acyclic *)
       let n = List.length gi.gi_nodes in
       let read es = match gi_parse (gi_yaml { gi with gi_edges = gi.gi_edges @ es }) with
         | Some g2 -> Printf.sprintf "ok %d" (List.length g2.gi_edges) | None -> "E" in
       obs id "GYB" (read [((nat_of_int 0, nat_of_int n), Logic)]);
       (* from the first to the last function of iter(): cannot close a cycle *)
       (let it = gi_iter gi in
        if n >= 2 then obs id "GYG" (read [((List.hd it, List.nth it (n - 1)), Data)]));
       (* GS: through the YAML text (Yaml.gi_parse); GS2: through petgraph's serialisation structure *)
       (match gi_parse (gi_yaml gi) with
        | Some gi2 ->
          obs id "GS" (if gi_eqb gi2 gi then "1" else "0");
          obs id "GSE" (str_edges gi2.gi_edges); obs id "GSI" (str_ints (gi_iter gi2))
        | None -> obs id "GS" "E");
       let gi3 = gi_de (gi_ser gi) in
       obs id "GS2" (if gi_eqb gi gi3 then "1 1" else "0 0"))

let pair_case id a_s b_s =
  let side s =
    let (g, rs) = run_ops empty_dag (parse_ops s) in
    if has_panic rs then None else
    match build g with BOk (gg, _, _) -> Some gg | _ -> None in
  match side a_s, side b_s with
  | Some a, Some b ->
    obs id "EQ" (if fngraph_eq a b then "1" else "0");
    obs id "EQK" (if a.fg_ranks = b.fg_ranks then "1" else "0")
  | _ -> obs id "EQ" "X"; obs id "EQK" "X"

let strip_prefix p s =
  let lp = String.length p in
  if String.length s >= lp && String.sub s 0 lp = p then Some (String.sub s lp (String.length s - lp)) else None

let handle line =
  match String.split_on_char '|' line with
  | hd :: rest ->
    let hd_t = List.filter (fun t -> t <> "") (String.split_on_char ' ' hd) in
    (match hd_t, rest with
     | "CASE" :: _ :: _ :: fam :: _, _ when (String.length fam >= 5 && String.sub fam 0 5 = "tokio")
                                          || (String.length fam >= 3 && String.sub fam 0 3 = "nm-") ->
       ()   (* `tokio*`: run inside a real tokio runtime (cooperative budget); `nm-*`: user futures that wake
               themselves, huge limits, very deep graphs (the model's unary numbers and lists are too slow): monitors only *)
     | "CASE" :: "B" :: id :: fam, [ops; tf] ->
       print_endline line;
       let timed = (match fam with f :: _ -> String.length f >= 5 && String.sub f 0 5 = "timed" | [] -> false) in
       let tf = String.trim tf in
       let tf = match strip_prefix "tf=" tf with Some x -> x | None -> "" in
       builder_case ~timed id ops tf
     | "CASE" :: "BP" :: id :: _, [a; b] -> print_endline line; pair_case id a b
     | "CASE" :: kind :: id :: _, _ ->
       print_endline line;
       (try Runtime_driver.handle kind id hd_t rest
        with Not_found -> Printf.printf "OBS %s ERR unknown-case-kind\n" id)
     | _ -> ())
  | [] -> ()

let () =
  let ic = if Array.length Sys.argv > 1 then open_in Sys.argv.(1) else stdin in
  (try while true do
      let line = input_line ic in
      (try handle line with e -> Printf.printf "ERR %s on %s\n" (Printexc.to_string e) line)
    done with End_of_file -> ());
  flush stdout
