(* Runtime (scheduler) cases: X (call APIs), S (stream APIs), H (histories), Y (pairs of calls), Z (pairs of streams).
   Format: /verif/harness/FORMAT.md.  Parsing and printing only; all behaviour is in model.ml. *)
open Model

let rec nat_of_int n = if n <= 0 then O else S (nat_of_int (n - 1))
let rec int_of_nat = function O -> 0 | S n -> 1 + int_of_nat n
let toks s = List.filter (fun t -> t <> "" && t <> "-") (String.split_on_char ' ' s)
let ids l = if l = [] then "-" else String.concat " " (List.map (fun x -> string_of_int (int_of_nat x)) l)
let ids_dot l = if l = [] then "-" else String.concat "." (List.map (fun x -> string_of_int (int_of_nat x)) l)

let parse_ops_hook : (string -> bop list) ref = ref (fun _ -> [])

let kv tokens key default =
  let p = key ^ "=" in
  let lp = String.length p in
  match List.find_opt (fun t -> String.length t >= lp && String.sub t 0 lp = p) tokens with
  | Some t -> String.sub t lp (String.length t - lp)
  | None -> default

let parse_strat s =
  match s with
  | "non" -> SNonInt | "ign" -> SIgnore | "fin" -> SFinish
  | _ -> (match String.split_on_char ':' s with
          | ["pn"; k] -> SPollN (nat_of_int (int_of_string k))
          | _ -> failwith ("bad strat " ^ s))

let parse_imm s =
  if s = "-" || s = "" then [] else
  List.map (fun e -> match String.split_on_char ':' e with
    | [i; r] -> (nat_of_int (int_of_string i), r = "o")
    | _ -> failwith ("bad imm " ^ e)) (String.split_on_char ',' s)

let build_graph ops_s =
  let (g, _) = run_ops empty_dag (!parse_ops_hook ops_s) in
  match build g with BOk (gg, _, _) -> gg | _ -> failwith "build failed in runtime case"

(* Modular correspondence: FG_GRAPH_OVERRIDE names a file of lines "<case id> <edges>"; for those
   cases the model runs on the edge list the implementation built (Builder.with_edges) instead of
   the edge list of the model's own build(). *)
let overrides : (string, string) Hashtbl.t = Hashtbl.create 64
let () =
  match Sys.getenv_opt "FG_GRAPH_OVERRIDE" with
  | None -> ()
  | Some f ->
    let ic = open_in f in
    (try while true do
        let l = input_line ic in
        match String.index_opt l ' ' with
        | Some i -> Hashtbl.replace overrides (String.sub l 0 i) (String.sub l (i + 1) (String.length l - i - 1))
        | None -> if l <> "" then Hashtbl.replace overrides l "-"
      done with End_of_file -> close_in ic)

let parse_edge tok =
  let n = String.length tok in
  let k = match tok.[n - 1] with 'L' -> Logic | 'C' -> Contains | 'D' -> Data | _ -> failwith ("bad edge " ^ tok) in
  match String.split_on_char '-' (String.sub tok 0 (n - 1)) with
  | [a; b] -> ((nat_of_int (int_of_string a), nat_of_int (int_of_string b)), k)
  | _ -> failwith ("bad edge " ^ tok)

(* -> the graph to use, and whether an override was requested but refused *)
let apply_override id gg =
  match Hashtbl.find_opt overrides id with
  | None -> (gg, false)
  | Some es_s ->
    (match with_edges gg (List.map parse_edge (toks es_s)) with
     | Some gg' -> (gg', false)
     | None -> (gg, true))

(* The options of a call are assembled the way the harness assembles its `StreamOpts` (rt_exec.rs
   make_opts): one of six chains of builder calls, selected by the case id; the model folds the chain
   (Opts.opts_build, extracted). *)
let cur_variant = ref 0

let opts_of rev strat incl =
  let r = if rev then [ORev] else [] in
  let s = (match strat with SNonInt -> [] | _ -> [OState strat]) in
  let i b = [OIncl b] in
  let calls = match !cur_variant with
    | 0 -> r @ s @ i incl
    | 1 -> i incl @ s @ r
    | 2 -> s @ r @ i incl
    | 3 -> i incl @ r @ s
    | 4 -> r @ r @ i (not incl) @ i incl @ s
    | _ -> i incl @ s @ r @ r @ i incl in
  opts_build calls

let parse_cfg gg tokens =
  let api = match kv tokens "api" "foreach" with
    | "fold" -> AFold | "tryfold" -> ATryFold | "foreach" -> AForEach | "tryforeach" -> ATryForEach
    | a -> failwith ("bad api " ^ a) in
  let b k = kv tokens k "0" = "1" in
  mk_cfg_opts gg (opts_of (kv tokens "ord" "f" = "r") (parse_strat (kv tokens "strat" "non")) (kv tokens "incl" "1" = "1"))
    api (b "mut") (b "ctl")
    (nat_of_int (int_of_string (kv tokens "lim" "0")))
    (parse_imm (kv tokens "imm" "-")) true

let str_trace t =
  if t = [] then "-" else
  String.concat " " (List.map (function
    | Start i -> "s" ^ string_of_int (int_of_nat i)
    | End (i, ok) -> "e" ^ string_of_int (int_of_nat i) ^ (if ok then "o" else "e")) t)

let str_outcome = function
  | None -> "-"
  | Some o ->
    (match o.o_kind with
     | KFoldErr i -> Printf.sprintf "- - | - | - | folderr:%d" (int_of_nat i)
     | k -> Printf.sprintf "%s %s | %s | %s | %s" (if o.o_finished then "F" else "I")
              (ids o.o_processed) (ids o.o_not_processed) (ids o.o_errs)
              (match k with KOk -> "ok" | KErr -> "err" | KContinue -> "cont" | KBreak -> "break" | KFoldErr _ -> "?"))

(* one call run: returns unit, prints with tag prefix *)
(* `sg` = the function whose user future sends the interrupt signal in the poll in which it resolves
   (config token `sig=<i>`); `mark` = length of the trace when it did (SelfSignal.step_sig; with
   sg = None it is Sched.step, SelfSignalFacts.run_sig_none) *)
type callrun = { cf : cfg; mutable st : state; mutable nstart : int; mutable k : int; mutable stopped : bool; pre : string; id : string;
                 sg : nat option; mutable mark : nat option }

let mk_callrun ?st0 ?sg id pre cf =
  { cf; st = (match st0 with Some s -> s | None -> init cf); nstart = 0; k = 0; stopped = false; pre; id; sg; mark = None }

let parse_sig tokens = match kv tokens "sig" "" with "" -> None | v -> Some (nat_of_int (int_of_string v))

let rstep r ev =
  let (st', mk') = step_sig r.sg r.cf (r.st, r.mark) ev in
  r.st <- st'; r.mark <- mk'

(* the trace with `!` where the signalling function sent the signal *)
let str_trace_mark t mark =
  match mark with
  | None -> str_trace t
  | Some k ->
    let k = int_of_nat k in
    let rec split n l acc = if n <= 0 then (List.rev acc, l) else match l with [] -> (List.rev acc, []) | x :: r -> split (n - 1) r (x :: acc) in
    let (a, b) = split k t [] in
    String.concat " " (List.filter (fun x -> x <> "-") [str_trace a; "!"; str_trace b])

let rec drop n l = if n <= 0 then l else match l with [] -> [] | _ :: t -> drop (n - 1) t

let call_event r tok =
  if r.stopped then () else begin
    let nosettle = String.length tok > 0 && tok.[0] = '+' in
    let t = if nosettle then String.sub tok 1 (String.length tok - 1) else tok in
    let aborted = ref false in
    (match t with
     | "s" -> ()
     | "i" -> rstep r EInt
     | "p" -> rstep r EPoll
     | "a" -> aborted := true
     | _ when String.length t >= 3 && t.[0] = 'c' ->
       let ok = t.[String.length t - 1] = 'o' in
       let i = int_of_string (String.sub t 1 (String.length t - 2)) in
       rstep r (ECmp (nat_of_int i, ok))
     | _ -> failwith ("bad event " ^ t));
    if !aborted then begin
      (* aborting a call that has already returned (or panicked) changes nothing: its status is reported *)
      let status = if not (is_none r.st.panic) then "X" else if not (is_none r.st.result) then "R" else "A" in
      Printf.printf "OBS %s %se%d - %s\n" r.id r.pre r.k status; r.stopped <- true
    end else begin
      if not nosettle then rstep r ESettle;
      let st = starts r.st.trace in
      let fresh = drop r.nstart st in
      r.nstart <- List.length st;
      let status = if not (is_none r.st.panic) then "X" else if not (is_none r.st.result) then "R" else "P" in
      Printf.printf "OBS %s %se%d %s %s\n" r.id r.pre r.k (ids_dot fresh) status;
      if status = "X" then r.stopped <- true
    end;
    r.k <- r.k + 1
  end

let call_finish r =
  Printf.printf "OBS %s %sT %s\n" r.id r.pre (str_trace_mark r.st.trace r.mark);
  Printf.printf "OBS %s %sO %s\n" r.id r.pre (if is_none r.st.panic then str_outcome r.st.result else "-")

let parse_scfg gg tokens =
  mk_scfg_opts gg (opts_of (kv tokens "ord" "f" = "r") (parse_strat (kv tokens "strat" "non")) true) (kv tokens "int" "0" = "1")
    (try Sys.getenv "FG_STREAM_DRAIN" <> "0" with Not_found -> true)

(* one stream run, stepped event by event *)
type srun = { sc : scfg; mutable sst : state; mutable sk : int; spre : string; sid : string; mutable parked : bool }

let mk_srun id pre sc = { sc; sst = sinit sc; sk = 0; spre = pre; sid = id; parked = false }

let stream_event r t =
  let id = r.sid and pre = r.spre and sc = r.sc in
  (* the wake-up flag is reported only while the consumer is parked (last poll returned Pending) *)
  let w s = if not r.parked then "-" else if s.woken then "1" else "0" in
  (match t with
   | "n" when not r.sst.s_alive -> Printf.printf "OBS %s %se%d P W-\n" id pre r.sk   (* the stream value is gone *)
   | "n" ->
     let (s', res) = sstep sc r.sst SNext in
     (match res with
      | WPending -> r.sst <- s'; r.parked <- true; Printf.printf "OBS %s %se%d P W%s\n" id pre r.sk (if not (is_none s'.panic) then "-" else w s')
      | WNone -> r.parked <- false; r.sst <- { s' with woken = false }; Printf.printf "OBS %s %se%d N W-\n" id pre r.sk
      | WItem x -> r.parked <- false; r.sst <- { s' with woken = false }; Printf.printf "OBS %s %se%d Y%d W-\n" id pre r.sk (int_of_nat x)
      | WInt None -> r.parked <- false; r.sst <- { s' with woken = false }; Printf.printf "OBS %s %se%d I- W-\n" id pre r.sk
      | WInt (Some x) -> r.parked <- false; r.sst <- { s' with woken = false }; Printf.printf "OBS %s %se%d I%d W-\n" id pre r.sk (int_of_nat x))
   | "i" -> r.sst <- fst (sstep sc r.sst SInt); Printf.printf "OBS %s %se%d W%s\n" id pre r.sk (w r.sst)
   | "x" -> r.sst <- fst (sstep sc r.sst SDropStream); Printf.printf "OBS %s %se%d W%s\n" id pre r.sk (w r.sst)
   | _ when String.length t >= 2 && (t.[0] = 'd' || t.[0] = 'u') ->   (* u<i>: dropped while a panic unwinds = a drop *)
     let i = int_of_string (String.sub t 1 (String.length t - 1)) in
     r.sst <- fst (sstep sc r.sst (SDrop (nat_of_int i))); Printf.printf "OBS %s %se%d W%s\n" id pre r.sk (w r.sst)
   | _ -> failwith ("bad stream event " ^ t));
  r.sk <- r.sk + 1

let stream_finish r =
  Printf.printf "OBS %s %sZ %s\n" r.sid r.spre (if is_none r.sst.panic then "ok" else "X");
  Printf.printf "OBS %s %sT %s\n" r.sid r.spre (str_trace r.sst.trace)

let stream_run id pre sc events =
  let r = mk_srun id pre sc in
  List.iter (stream_event r) events;
  stream_finish r

let kind_char = function Logic -> "L" | Contains -> "C" | Data -> "D"
let str_edges es =
  if es = [] then "-" else
  String.concat " " (List.map (fun ((a, b), k) ->
    Printf.sprintf "%d-%d%s" (int_of_nat a) (int_of_nat b) (kind_char k)) es)

let build_graph id ops_s =
  let gg = build_graph ops_s in
  let (gg, refused) = apply_override id gg in
  if refused then Printf.printf "OBS %s GX override-refused\n" id;
  Printf.printf "OBS %s G %s\n" id (str_edges gg.fg_edges); gg

let handle kind id _hd rest =
  let rest = List.map String.trim rest in
  cur_variant := (try (int_of_string id) mod 6 with _ -> 0);
  match kind, rest with
  | "X", [ops; cfgs; evs] ->
    let gg = build_graph id ops in
    let r = mk_callrun ?sg:(parse_sig (toks cfgs)) id "" (parse_cfg gg (toks cfgs)) in
    List.iter (call_event r) (toks evs); call_finish r
  | "S", [ops; cfgs; evs] ->
    let gg = build_graph id ops in
    stream_run id "" (parse_scfg gg (toks cfgs)) (toks evs)
  | "H", ops :: runs when (match _hd with _ :: _ :: _ :: fam :: _ -> String.length fam >= 5 && String.sub fam 0 5 = "share" | _ -> false) ->
    (* consecutive calls sharing one InterruptibilityState: what the state owns is carried over *)
    let gg = build_graph id ops in
    let carry = ref (false, O, O) in
    List.iteri (fun j run ->
      let pre = Printf.sprintf "r%d." j in
      match String.split_on_char ';' run with
      | [c; e] ->
        (match toks c with
         | "call" :: ct ->
           let cf = parse_cfg gg ct in
           let (recv, cnt, pend) = !carry in
           let r = mk_callrun ~st0:(init_carry cf recv cnt pend) id pre cf in
           List.iter (call_event r) (toks e); call_finish r;
           carry := (r.st.w.w_recv, r.st.w.w_cnt, r.st.ipend)
         | _ -> failwith "share: only call runs")
      | _ -> failwith "bad run") runs
  | "H", ops :: runs ->
    let gg = build_graph id ops in
    List.iteri (fun j run ->
      let pre = Printf.sprintf "r%d." j in
      match String.split_on_char ';' run with
      | [c; e] ->
        (match toks c with
         | "call" :: ct ->
           (* "*<k>" = k unobserved repetitions of the run beforehand: a run only reads the graph value *)
           let r = mk_callrun id pre (parse_cfg gg ct) in
           List.iter (call_event r) (List.filter (fun t -> not (String.length t >= 2 && t.[0] = '*')) (toks e)); call_finish r
         | "stream" :: ct -> stream_run id pre (parse_scfg gg ct) (toks e)
         | _ -> failwith "bad run kind")
      | _ -> failwith "bad run") runs
  | "Y", [ops; ca; cb; evs] ->
    let gg = build_graph id ops in
    let cfa = parse_cfg gg (toks ca) and cfb = parse_cfg gg (toks cb) in
    let ra = ref (mk_callrun id "A." cfa) and rb = ref (mk_callrun id "B." cfb) in
    let ga = ref 1 and gb = ref 1 in
    (* "!" finishes the side's run and starts a fresh one (prefix A2. / B2. ...): in the model a fresh init *)
    let handle r g side cf tok =
      if tok = "!" then begin
        call_finish !r; incr g; r := mk_callrun id (Printf.sprintf "%s%d." side !g) cf
      end else call_event !r tok in
    List.iter (fun t ->
      if String.length t > 2 && String.sub t 0 2 = "A:" then handle ra ga "A" cfa (String.sub t 2 (String.length t - 2))
      else if String.length t > 2 && String.sub t 0 2 = "B:" then handle rb gb "B" cfb (String.sub t 2 (String.length t - 2))
      else failwith ("bad pair event " ^ t)) (toks evs);
    call_finish !ra; call_finish !rb
  | "Z", [ops; ca; cb; evs] ->
    (* two streams on one graph: in the model they share nothing, so creating them up front is the same *)
    let gg = build_graph id ops in
    let ra = mk_srun id "A." (parse_scfg gg (toks ca)) and rb = mk_srun id "B." (parse_scfg gg (toks cb)) in
    List.iter (fun t ->
      if String.length t > 2 && String.sub t 0 2 = "A:" then stream_event ra (String.sub t 2 (String.length t - 2))
      else if String.length t > 2 && String.sub t 0 2 = "B:" then stream_event rb (String.sub t 2 (String.length t - 2))
      else failwith ("bad pair event " ^ t)) (toks evs);
    stream_finish ra; stream_finish rb
  | "W", [ops; ca; cb; evs] ->
    (* a stream (A) and a call (B) on one graph *)
    let gg = build_graph id ops in
    let ra = mk_srun id "A." (parse_scfg gg (toks ca)) and rb = mk_callrun id "B." (parse_cfg gg (toks cb)) in
    List.iter (fun t ->
      if String.length t > 2 && String.sub t 0 2 = "A:" then stream_event ra (String.sub t 2 (String.length t - 2))
      else if String.length t > 2 && String.sub t 0 2 = "B:" then call_event rb (String.sub t 2 (String.length t - 2))
      else failwith ("bad pair event " ^ t)) (toks evs);
    stream_finish ra; call_finish rb
  | _ -> raise Not_found
