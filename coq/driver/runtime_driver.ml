(* Runtime (scheduler) cases: filled in with the Sched model. *)
let handle (_kind : string) (_id : string) (_hd : string list) (_rest : string list) : unit = raise Not_found
